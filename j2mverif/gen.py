"""Shared Hypothesis strategies (DESIGN.md section 3).  Everything a case contains is plain JSON."""
import keyword
import re

import inflection
from hypothesis import strategies as st
from unidecode import unidecode

# ---------------------------------------------------------------------------------------------
# G-KEYS

PLAIN_KEYS = ["a", "b", "c", "d", "e", "f", "g", "h", "k", "n", "q", "x", "y", "z",
              "uid", "name", "item", "items", "value", "data", "user", "tags", "info", "count", "kind",
              "owner", "child", "children", "node", "nodes", "left", "right"]

API_WORDS = ["user_id", "created_at", "updatedAt", "firstName", "last_name", "email", "url", "html_url",
             "avatarUrl", "isActive", "is_admin", "total_count", "page", "perPage", "results", "entries",
             "address", "street", "zipCode", "geo", "lat", "lng", "company", "catchPhrase", "phone", "website",
             "title", "body", "comments", "author", "labels", "milestone", "assignees", "repository",
             "description", "homepage", "language", "forks_count", "watchers", "defaultBranch", "score",
             "price", "currency", "amount", "quantity", "sku", "categories", "category", "images", "thumbnail",
             "status", "state", "message", "error", "errors", "code", "details", "timestamp", "duration",
             "startTime", "end_time", "timezone", "locale", "country", "city", "region", "parent", "parents",
             "owner", "members", "roles", "permissions", "settings", "options", "metadata", "attributes",
             "properties", "version", "revision", "checksum", "size", "width", "height", "depth", "weight",
             "color", "colour", "shape", "tagsList", "series", "matrix", "indices", "statuses", "addresses",
             "people", "children", "mice", "geese", "news", "analysis", "analyses", "DriverStandings",
             "MRData", "HTTPResponse", "userID", "XMLData", "x1y", "v2", "ipv4Address", "sha256", "utf8Text",
             "Root", "Item", "Owner", "Node", "Tag", "Child", "Datum", "User"]

KEYWORDS = list(keyword.kwlist)
BUILTIN_NAMES = ["list", "type", "id", "str", "int", "float", "bool", "dict", "set", "object", "None", "True",
                 "False", "print", "input", "len", "max", "min", "sum", "all", "any", "map", "filter", "next",
                 "iter", "hash", "format", "open", "file", "property", "super", "range", "bytes", "vars", "dir",
                 "Exception", "license", "copyright", "credits", "exit", "quit", "help", "date", "time",
                 "datetime", "schema", "defaultdict"]
IMPORTED_NAMES = ["List", "Optional", "Any", "Dict", "Union", "Literal", "Field", "BaseModel", "SQLModel", "field",
                  "dataclass", "attr", "optional", "convert_strings", "ClassType", "IntString", "FloatString",
                  "BooleanString", "IsoDateString", "IsoTimeString", "IsoDatetimeString", "typing", "pydantic",
                  "attrs", "dataclasses", "literal", "union", "fields_", "base_model", "class_type", "int_string",
                  "iso_date_string", "Lists", "Dicts", "Unions", "Fields", "Optionals", "anys"]
SQL_SPECIAL = ["id", "pk", "ID", "Pk"]
PUNCT_KEYS = ["q r", "foo-bar", "a.b", "it's", 'say "hi"', "back\\slash", "path/to", "$ref", "@type", "x y z",
              "first name", "e-mail", "content-type", "X-Request-Id", "a\"b", "c\\d", "tab\there", "per cent%",
              "{curly}", "[square]", "semi;colon", "co:lon", "qu?estion", "ex!clam", "a+b", "a=b", "hash#tag",
              "new\nline", " padded ", "trail ", " lead", "pipe|d", "til~de", "back`tick", "ca^ret", "am&p", "st*ar", "(paren)", "a,b", "<tag>",
              "line\u2028sep", "nel\x85char", "a\\nb", "C:\\temp\\new", "end\\", "x\\ty", "u\\x41z", "quote\\\"d",
              # dropped leading punctuation in front of a word whose capitalised form is a keyword / an imported name
              "$union", "#literal", "@none", "$true", "-list", "$optional", "@field", ".any"]
NONASCII_KEYS = ["é", "ü", "ñame", "straße", "øre", "Æther", "café", "naïve", "Ключ", "значение", "имя",
                 "Ελληνικά", "όνομα", "Հայերեն", "ÀÉÎ", "łódź", "čeština", "šđžć", "ärger", "Größe",
                 "données", "año", "fianç", "Über", "пользователь", "список", "αβγ", "Ωmega",
                 "x½", "m²", "a—b", "col·lecció", "tm™", "ﬁle", "Ǆungla", "ŉame", "Ĳssel"]
CASELESS_KEYS = ["한국", "สวัสดี", "नमस्ते", "日本", "中文", "שלום", "مرحبا", "ქართული"]     # C11 only, with transliteration on
DIGIT_FIRST = ["1st", "2nd", "3d", "9lives", "7", "42x", "1_a", "5Star", "8ball", "#1x", "$2nd", "(3) place", ".5x", "-4u", "@9to5"]

KEY_ALPHABET = ["a", "b", "Z", "q", "1", "7", "_", "-", " ", ".", "\t", "\u200b", "\u00a0", "\u00ad", "😀", "𝔘", "𐐀", "é", "Ж", "'", '"', "\\", "$", "#", "/",
                "\u2028", "(", ")"]


@st.composite
def composed_keys(draw, max_keys=3):
    """keys composed character by character (an ASCII letter first, so the label is letter-initial), e.g. 'tag\\t😀'"""
    out = []
    for _ in range(draw(st.integers(0, max_keys))):
        k = draw(st.sampled_from("abcdgkmtxyzKT")) + draw(st.text(alphabet=st.sampled_from(KEY_ALPHABET), min_size=1, max_size=6))
        if key_status(k) is None and not nfkc_unstable(k):
            out.append(k)
    return out


def fold(key):
    return re.sub(r"[\W_]", "", unidecode(key)).lower()


def label_of(key, unicode):
    s = unidecode(key) if unicode else key
    return re.sub(r"\W", "", s)


def _reserved():
    import pydantic.v1
    r = set(dir(pydantic.v1.BaseModel))
    r |= {"self", "mro", "config", "Config"}
    return r


RESERVED = None


def key_status(key, unicode_both=True, allow_digit_first=False):
    """None if the key is in the stated domain, else the finding key that excludes it."""
    global RESERVED
    if RESERVED is None:
        RESERVED = _reserved()
    for uni in ((True, False) if unicode_both else (True,)):
        lab = label_of(key, uni)
        if not lab:
            return "empty-label"
        c = lab[0]
        if c == "_" or c == "0":
            return "leading-underscore-label"
        if c.isdigit():
            if not (allow_digit_first and c in "123456789"):
                return "digit-first"
        elif not c.isalpha():
            return "leading-underscore-label"
        snake = inflection.underscore(lab)
        forms = {lab, snake, snake.rstrip("_"), lab.lower(), inflection.camelize(inflection.singularize(snake))}
        if forms & RESERVED:
            return "framework-reserved-field-names"
        # label has to contain an ASCII-transliterable letter (C11 domain)
        if not re.search(r"[A-Za-z]", unidecode(key)):
            return "empty-label"
    return None


def nfkc_unstable(key):
    """finding nfkc-unstable-key-without-transliteration: a word character that Python does not keep as is in an
    identifier (NFKC-normalised, e.g. the ligature fi, or not an identifier character at all, e.g. 1/2 or superscript 2)"""
    import unicodedata
    for ch in key:
        if re.match(r"\w", ch) and (unicodedata.normalize("NFKC", ch) != ch or not ("a" + ch).isidentifier()):
            return True
    return False


ONES = ['', 'one', 'two', 'three', 'four', 'five', 'six', 'seven', 'eight', 'nine']


def fold_digit_words(key):
    """fold of the key after a leading digit 1-9 of its label is spelled out ('1day' -> 'one_day'), which is what the field
    name is made of; equal for '1day' and 'one_day' although their plain folds differ (finding digit-word-collision)"""
    lab = label_of(key, True)
    if lab[:1] in "123456789" and lab[:1]:
        return fold(ONES[int(lab[0])] + "_" + lab[1:])
    return fold(key)


def digit_word_collision(keys):
    ks = list(keys)
    return len({fold(k) for k in ks}) == len(ks) and len({fold_digit_words(k) for k in ks}) != len(ks)


def class_forms(key):
    """(name before sanitising, sanitised forms) of the class derived from a key holding an object"""
    raw = inflection.camelize(inflection.singularize(inflection.underscore(key)))
    def cap(x):
        return x[:1].upper() + x[1:]
    clean = {cap(re.sub(r"\W", "", unidecode(raw))), cap(re.sub(r"\W", "", raw))}
    return raw, clean


ROOT_NAMES = ["Root", "Item", "Model", "Response", "my-model", "Ünit-a", "Api Response", "Данные", "R", "2Root", "Größe"]


def root_forms(name):
    """(name before sanitising, sanitised forms) of a root model called `name` by the user (no inflection applied)"""
    def cap(x):
        return x[:1].upper() + x[1:]
    return name, {cap(re.sub(r"\W", "", unidecode(name))), cap(re.sub(r"\W", "", name))}


def class_name_collision(keys, root=None):
    """finding class-name-collision-after-sanitising: two keys whose class names differ when duplicates are
    resolved (before sanitising) but are equal afterwards"""
    forms = [class_forms(k) for k in keys]
    if root is not None:
        forms.append(root_forms(root))
    for i in range(len(forms)):
        for j in range(i + 1, len(forms)):
            if forms[i][0] != forms[j][0] and forms[i][1] & forms[j][1]:
                return True
    return False


_POOL_CACHE = {}


def key_universe(pools, min_size=1, max_size=8, allow_digit_first=False):
    """Lists of keys, pairwise fold-distinct, all in the stated domain.  Returns strategy of list[str]."""
    ck = (tuple(id(p) for p in pools), allow_digit_first)
    pool = _POOL_CACHE.get(ck)
    if pool is None:
        pool = []
        seen = set()
        for p in pools:
            for k in p:
                if k in seen:
                    continue
                seen.add(k)
                if key_status(k, allow_digit_first=allow_digit_first) is None:
                    pool.append(k)
        _POOL_CACHE[ck] = pool
    return st.lists(st.sampled_from(pool), min_size=min_size, max_size=max_size, unique_by=fold).filter(
        lambda ks: not class_name_collision(ks) and not digit_word_collision(ks))


def excluded_counts(pools, allow_digit_first=False):
    """How many pool keys each finding excludes by construction (reported in evidence)."""
    out = {}
    for p in pools:
        for k in p:
            s = key_status(k, allow_digit_first=allow_digit_first)
            if s:
                out[s] = out.get(s, 0) + 1
    return out


ALL_KEY_POOLS = [PLAIN_KEYS, API_WORDS, KEYWORDS, BUILTIN_NAMES, IMPORTED_NAMES, SQL_SPECIAL, PUNCT_KEYS, NONASCII_KEYS]
ASCII_KEY_POOLS = [PLAIN_KEYS]

# ---------------------------------------------------------------------------------------------
# G-STR

PLAIN_WORDS = ["foo", "bar", "baz", "qux", "alpha", "beta", "gamma", "delta", "hello world", "N/A", "", "x", "yes",
               "no", "on", "off", "open", "closed", "red", "green", "blue", "admin", "guest", "v1", "id-7", "none",
               "null", "tru", "fals", "abc", "ABC", "Abc"]
LITERAL_17 = ["l%02d" % i for i in range(17)]
TRICKY_CHARS = ['"', "\\", "\n", ",", "\t", "'", "é", "ß", "Ж", "😀", "𝔘", " ", "a", "b", "{", "}", "%", "$",
                "\u2028", "\u2029", "\x85", "\x0c", "\x1d"]     # the last five: str.splitlines() separators that JSON leaves raw or escapes
LONG_STRS = ["x" * n for n in (18, 19, 20, 21, 22)] + ["lorem ipsum dolor sit amet consectetur", "a,b" * 7]

INT_STRS = ["0", "1", "-1", "+7", "42", "007", "1_000", " 12 ", "12\n", "٣", "１２", "-0", "1__0", "_1", "1_",
            "9" * 25, "+ 1", "0x10", "1e3", "١٢٣", " -5", "²", "¹²", "①", "⒈", "٣²", "1²", "½", "Ⅷ", "9" * 4400]
FLOAT_STRS = ["1.5", "-0.25", "1e5", "1E-3", ".5", "5.", "1_0.5", "nan", "NaN", "inf", "-inf", "Infinity",
              "-Infinity", " 2.5 ", "1.5e+10", "1e400", "0.1", "3.14159", "１.５", "1.2.3", "1,5", "--1.5", "1e", "e5",
              "+.5e-2", "infinit", "nano"]
BOOL_STRS = ["true", "false", "True", "False", "TRUE", "FALSE", "tRuE", "fAlse", " true", "true ", "yes", "1",
             "t", "f", "truee"]
DATE_STRS = ["2018-01-02", "2018-1-2", "20180102", "2018-13-01", "2018-02-30", "2018-W01-1", "2018-001", "2018-01",
             "2018", "01/02/2018", "Jan 2 2018", "2 January 2018", "1999-12-31", "0001-01-01", "9999-12-31",
             "2018-01-02 ", " 2018-01-02", "2018/01/02"]
TIME_STRS = ["12:30", "12:30:45", "12:30:45.123", "12:30:45.123456", "24:00", "12:30:61", "25:00", "00:00",
             "12:30Z", "12:30+01:00", "12:30:45-05:30", "1230", "123045", "T12:30", "12:30 PM", "noon", "7pm",
             "12:60", "23:59:59.999999"]
DATETIME_STRS = ["2018-01-02T03:04:05", "2018-01-02 03:04:05", "2018-01-02T03:04:05Z", "2018-01-02T03:04:05+01:00",
                 "2018-01-02T03:04:05.678", "2018-01-02T03:04:05.678901", "2018-01-02T03:04", "2018-01-02T03",
                 "20180102T030405", "2018-01-02T24:00:00", "2018-01-02T03:04:05,5", "2018-01-02t03:04:05",
                 "2018-01-02T03:04:05-00:00", "2018-W01-1T10:00", "2018-01-02T25:00", "2018-01-02T03:04:05+24:00",
                 "2018-01-02T03:04:05.1234567", "2018-01-02 03:04:05 UTC", "Tue, 02 Jan 2018 03:04:05 GMT"]
OVERFLOW_STRS = ["/6099999999", "99999999999999999999-01-01", "1e999999", "6099999999", "2018-01-02T99999999999",
                 "9" * 400, "-1" + "0" * 330]      # integers beyond the range of a double (float() gives inf)


@st.composite
def grammar_number(draw):
    sign = draw(st.sampled_from(["", "", "-", "+"]))
    ws1 = draw(st.sampled_from(["", "", "", " ", "\t", "\n"]))
    ws2 = draw(st.sampled_from(["", "", "", " ", "\n"]))
    digits = st.text(alphabet="0123456789", min_size=1, max_size=6)
    ip = draw(digits)
    if draw(st.integers(0, 5)) == 0 and len(ip) > 1:
        pos = draw(st.integers(1, len(ip) - 1))
        ip = ip[:pos] + "_" + ip[pos:]
    s = ip
    kind = draw(st.integers(0, 6))
    if kind in (1, 2, 3):
        s += "." + draw(st.text(alphabet="0123456789", min_size=0, max_size=4))
    if kind in (3, 4):
        s += draw(st.sampled_from(["e", "E"])) + draw(st.sampled_from(["", "-", "+"])) + draw(digits)[:3]
    if kind == 5:
        s = s.translate(str.maketrans("0123456789", draw(st.sampled_from(["٠١٢٣٤٥٦٧٨٩", "０１２３４５６７８９"]))))
    return ws1 + sign + s + ws2


@st.composite
def grammar_iso(draw):
    y = draw(st.sampled_from(["2018", "1999", "2024", "0001", "9999", "18"]))
    mo = draw(st.sampled_from(["01", "02", "12", "13", "00", "1"]))
    d = draw(st.sampled_from(["01", "02", "28", "29", "30", "31", "32", "2"]))
    sep = draw(st.sampled_from(["-", "-", "-", "", "/"]))
    date = y + sep + mo + sep + d
    h = draw(st.sampled_from(["00", "03", "12", "23", "24", "25"]))
    mi = draw(st.sampled_from(["00", "04", "30", "59", "60"]))
    s = draw(st.sampled_from(["", ":05", ":45", ":59", ":60", ":61"]))
    frac = draw(st.sampled_from(["", "", ".5", ".678", ".678901", ",5"])) if s else ""
    tz = draw(st.sampled_from(["", "", "Z", "+01:00", "-05:30", "+0100", " UTC"]))
    time = h + ":" + mi + s + frac + tz
    kind = draw(st.integers(0, 3))
    if kind == 0:
        return date
    if kind == 1:
        return time
    return date + draw(st.sampled_from(["T", "T", " ", "t"])) + time


def pseudo_strings():
    return st.one_of(
        st.sampled_from(INT_STRS), st.sampled_from(FLOAT_STRS), st.sampled_from(BOOL_STRS),
        st.sampled_from(DATE_STRS), st.sampled_from(TIME_STRS), st.sampled_from(DATETIME_STRS),
        st.sampled_from(OVERFLOW_STRS), grammar_number(), grammar_iso())


def tricky_strings(max_size=8):
    return st.text(alphabet=st.sampled_from(TRICKY_CHARS), min_size=0, max_size=max_size)


def plain_strings():
    return st.one_of(st.sampled_from(PLAIN_WORDS), st.sampled_from(PLAIN_WORDS), st.sampled_from(LITERAL_17),
                     st.sampled_from(LONG_STRS), tricky_strings())


def any_strings():
    return st.one_of(plain_strings(), plain_strings(), pseudo_strings())


# ---------------------------------------------------------------------------------------------
# G-JSON

def scalars(strs=None):
    strs = strs or any_strings()
    return st.one_of(
        st.none(), st.booleans(), st.integers(-5, 5), st.integers(-10 ** 12, 10 ** 12),
        st.sampled_from([0.5, -1.25, 1.0, 1e10, 3.14, 0.0]),
        st.floats(allow_nan=False, allow_infinity=False, width=32),
        strs, strs)


def values(universe, strs=None, max_leaves=10, obj_max=4, list_max=3):
    keys = st.sampled_from(universe)
    return st.recursive(
        scalars(strs),
        lambda c: st.one_of(st.lists(c, max_size=list_max), st.dictionaries(keys, c, max_size=obj_max)),
        max_leaves=max_leaves)


@st.composite
def generic_samples(draw, universe, strs=None, max_samples=5, max_leaves=10):
    v = values(universe, strs, max_leaves=max_leaves)
    obj = st.dictionaries(st.sampled_from(universe), v, max_size=5)
    return draw(st.lists(obj, min_size=1, max_size=max_samples))


@st.composite
def sibling_samples(draw, universe, strs=None):
    """booster (a): sibling objects with overlapping key sets at chosen overlaps (mergeable models)."""
    n = len(universe)
    base_n = draw(st.integers(1, max(1, min(6, n))))
    base = list(draw(st.permutations(universe)))[:base_n]
    leaf = scalars(strs)
    nsib = draw(st.integers(2, 4))
    sibs = []
    for _ in range(nsib):
        keep = [k for k in base if draw(st.integers(0, 3)) != 0] or base[:1]
        extra = [k for k in universe if k not in base and draw(st.integers(0, 4)) == 0]
        sibs.append({k: draw(leaf) for k in keep + extra})
    holders = draw(st.lists(st.sampled_from(universe), min_size=nsib, max_size=nsib))
    mode = draw(st.integers(0, 2))
    if mode == 0:       # siblings under different fields of one root object
        root = {}
        for h, s in zip(holders, sibs):
            root[h] = s
        samples = [root]
    elif mode == 1:     # siblings in a heterogeneous list / across samples under one field
        samples = [{holders[0]: s} for s in sibs]
    else:               # one level deeper, mixed with list wrappers
        samples = [{holders[0]: {holders[1]: sibs[0]}, holders[1]: [sibs[1]] + sibs[2:]}]
    if draw(st.booleans()):
        samples += draw(generic_samples(universe, strs, max_samples=2, max_leaves=4))
    return samples


@st.composite
def recursive_samples(draw, universe, strs=None):
    """booster (b): an object containing an object with the same keys (recursive / shared models)."""
    keys = list(draw(st.permutations(universe)))[:draw(st.integers(1, min(4, len(universe))))]
    leaf = scalars(strs)
    rk = keys[0]
    depth = draw(st.integers(1, 3))

    def mk(d):
        o = {k: draw(leaf) for k in keys[1:]}
        if d > 0:
            inner = mk(d - 1)
            o[rk] = [inner] if draw(st.booleans()) else inner
        else:
            o[rk] = draw(st.sampled_from([None, [], "leaf", 1]))
            if draw(st.booleans()):
                del o[rk]
        return o

    samples = [mk(depth)]
    if draw(st.booleans()):
        samples.append(mk(draw(st.integers(0, 2))))
    return samples


@st.composite
def backref_samples(draw, universe, strs=None):
    """a nested child that refers back to its root model: Root{.., kid: {.., parent: <same keys as Root>}}"""
    if len(universe) < 3:
        return draw(recursive_samples(universe, strs))
    ks = list(draw(st.permutations(universe)))
    kid, parent = ks[0], ks[1]
    leaf = scalars(strs)
    n_root = draw(st.integers(1, max(1, min(3, len(ks) - 2))))
    root_keys = ks[2:2 + n_root]
    kid_keys = ["c" + k for k in root_keys[:draw(st.integers(1, len(root_keys)))]]
    inner = {k: draw(leaf) for k in root_keys}
    inner[kid] = draw(st.sampled_from([None, None, "absent"]))
    if inner[kid] == "absent":
        del inner[kid]
    k_obj = {k: draw(leaf) for k in kid_keys}
    k_obj[parent] = [inner] if draw(st.booleans()) else inner
    root = {k: draw(leaf) for k in root_keys}
    root[kid] = [k_obj] if draw(st.booleans()) else k_obj
    return [root]


@st.composite
def numeric_family_samples(draw, universe, strs=None):
    """one field seen as int / int string / float / null / missing / another kind, in sibling objects that get merged and in list
    records spread over samples, in drawn order (the same member can reach one union twice: from a plain and from an Optional variant)"""
    ks = list(draw(st.permutations(universe)))
    f = ks[0]
    fam = draw(st.sampled_from([[1, 2, 2.5, "s"], ["1", "2", 3, None], ["1", "2", "2.5", None], [1, None, 2.5, 7], ["true", "false", None, "1"]]))
    common = {k: 0 for k in (ks[1:3] + ["c1", "c2"])[:2]}
    variants = []
    for v in draw(st.permutations(fam)):
        o = dict(common)
        o[f] = v
        variants.append(o)
    if draw(st.booleans()):
        variants.insert(draw(st.integers(0, len(variants))), dict(common))      # the key is missing in one variant
    mode = draw(st.integers(0, 2))
    if mode == 0:       # sibling objects under different keys of one root: separate models, merged by merge_models
        h = ["h%d" % i for i in range(len(variants))]
        return [{k: v for k, v in zip(h, variants)}]
    if mode == 1:       # list records spread over samples (some samples with several records)
        cut = draw(st.integers(1, len(variants) - 1))
        cut2 = draw(st.integers(cut, len(variants)))
        parts = [variants[:cut], variants[cut:cut2], variants[cut2:]]
        return [{"items": p} for p in parts if p]
    return [{"first": variants[0], "rest": variants[1:]}]


@st.composite
def reordered_records_samples(draw, universe, strs=None):
    """records with the same keys and value types but another key order (equal as dicts, different as sequences), next to a
    differently shaped record, in a list field spread over samples"""
    ks = list(draw(st.permutations(universe)))
    f = ks[0]
    uf = {fold(u) for u in universe}
    rec_keys = (ks[1:] + [k for k in ["id", "score", "rank"] if fold(k) not in uf])[:draw(st.integers(2, 3))]
    vals = [draw(st.sampled_from([1, 2.5, True, "x" * 25, None])) for _ in rec_keys]
    a = dict(zip(rec_keys, vals))
    b = dict(reversed(list(a.items())))
    other = {("tag" if "tag" not in uf else "zz_tag"): draw(st.sampled_from([1, "t", None]))}
    if draw(st.booleans()):
        other[rec_keys[0]] = vals[0]
    first, second = [a, b], [dict(a), other]
    if draw(st.booleans()):
        second = [other, dict(b)]
    samples = [{f: first}, {f: second}]
    if draw(st.booleans()):
        samples.reverse()
    if draw(st.integers(0, 2)) == 0:
        samples = [{f: first + second}]
    return samples


@st.composite
def same_named_children(draw, universe):
    """-> (samples, merge policy).  Sibling parents that the number policy merges (N common keys), each with a child object
    under the same key whose key names are equal but whose value types differ and which has fewer than N keys: the children
    stay separate models with equal field names, the merged parent refers to both."""
    ks = list(draw(st.permutations(universe)))
    n_child = draw(st.integers(1, 2))
    child_keys = (ks + ["x", "y"])[:n_child]
    n = n_child + draw(st.integers(1, 2))
    common = ["f%d" % i for i in range(n - 1)]
    kid = "kid"
    vals = draw(st.permutations([1, "s", 1.5, True, [1], None]))
    npar = draw(st.integers(2, 3))
    parents = []
    for i in range(npar):
        o = {k: i for k in common}
        o[kid] = {k: vals[i] for k in child_keys}
        if draw(st.booleans()):
            o["own%d" % i] = i
        parents.append(o)
    if draw(st.booleans()):
        samples = [{"p%d" % i: o for i, o in enumerate(parents)}]
        if draw(st.booleans()):
            samples.append({"p0": parents[-1]})
    else:
        samples = [{"p%d" % i: o} for i, o in enumerate(parents)]
    return samples, [["number", n]]


@st.composite
def shared_child_samples(draw, universe, strs=None):
    """'sub-model shared by two nested models under one root': the only shape with non-empty reference context."""
    if len(universe) < 3:
        return draw(generic_samples(universe, strs))
    ks = list(draw(st.permutations(universe)))
    a, b, c = ks[0], ks[1], ks[2]
    leaf = scalars(strs)
    shared_keys = ks[2:2 + draw(st.integers(1, 3))]
    o1 = {k: draw(leaf) for k in shared_keys}
    o2 = {k: draw(leaf) for k in shared_keys}
    root = {a: {c: o1, "p" + a: draw(st.integers(0, 3))}, b: {c: o2, "q" + b: "t"}}
    return [root]


@st.composite
def presence_samples(draw, universe, strs=None):
    """booster (c)+(d): one field seen missing / null / scalar kinds / [] / [null] / {} across samples."""
    k = draw(st.sampled_from(universe))
    kinds = st.sampled_from(["missing", "null", "int", "float", "intstr", "floatstr", "boolstr", "plain", "bool",
                             "empty_list", "list_null", "list_int", "list_str", "empty_dict", "obj", "list_empty_list",
                             "list_obj", "datestr"])
    if draw(st.integers(0, 3)) == 0:
        kinds = st.sampled_from(["empty_list", "list_null", "null", "missing", "list_int", "empty_dict", "list_empty_list"])
    n = draw(st.integers(2, 5))
    wrap = draw(st.integers(0, 3))
    other = [u for u in universe if u != k][:2]
    samples = []
    for _ in range(n):
        kind = draw(kinds)
        o = {u: draw(st.integers(0, 3)) for u in other if draw(st.booleans())}
        if kind != "missing":
            v = {"null": None, "int": draw(st.integers(-3, 3)), "float": draw(st.sampled_from([0.5, 2.25])),
                 "intstr": draw(st.sampled_from(["1", "-7", "42"])), "floatstr": draw(st.sampled_from(["1.5", "2e3"])),
                 "boolstr": draw(st.sampled_from(["true", "False"])), "plain": draw(st.sampled_from(PLAIN_WORDS)),
                 "bool": draw(st.booleans()), "empty_list": [], "list_null": [None],
                 "list_int": [draw(st.integers(0, 3))], "list_str": [draw(st.sampled_from(["a", "1", "b"]))],
                 "empty_dict": {}, "obj": {other[0] if other else k: 1}, "list_empty_list": [[]],
                 "list_obj": [{other[0] if other else k: "s"}],
                 "datestr": draw(st.sampled_from(["2018-01-02", "12:30", "2018-01-02T03:04:05"]))}[kind]
            if wrap == 1:
                v = [v]
            elif wrap == 2:
                v = {"w": v} if False else [v, v]
            o[k] = v
        samples.append(o)
    return samples


@st.composite
def dictlike_samples(draw, universe, strs=None):
    """booster (e): objects whose keys all / partially match dict-key regexes."""
    k = draw(st.sampled_from(universe))
    leaf = scalars(strs)
    if draw(st.integers(0, 4)) == 0:
        # values that compare (and hash) equal across types
        leaf = st.sampled_from([1, 1.0, True, 0, 0.0, False, 2, 2.0])
    pools = [["n_1", "n_2", "n_30"], ["a", "b"], ["1", "22", "333"], ["n_1", "m_2"], ["a", "c"], ["n_1x", "n_2"]]
    objs = []
    for _ in range(draw(st.integers(1, 3))):
        pk = draw(st.sampled_from(pools))
        sub = draw(st.lists(st.sampled_from(pk), min_size=1, max_size=3, unique=True))
        inner_obj = draw(st.booleans())
        o = {}
        for s in sub:
            o[s] = ({u: draw(leaf) for u in universe[:2]} if inner_obj else draw(leaf))
        objs.append(o)
    samples = []
    for o in objs:
        s = {k: o}
        if draw(st.booleans()) and len(universe) > 1:
            s[universe[0] if universe[0] != k else universe[1]] = [o, draw(leaf)]
        samples.append(s)
    return samples


@st.composite
def literal_boundary_samples(draw, universe, strs=None):
    """13-17 distinct short strings (or strings around 20 characters) at one position, spread over samples / containers"""
    k = draw(st.sampled_from(universe))
    n = draw(st.sampled_from([13, 14, 15, 15, 16, 17]))
    pool = draw(st.permutations(LITERAL_17))[:n]
    if draw(st.integers(0, 3)) == 0:
        pool = pool[:3] + [draw(st.sampled_from(LONG_STRS))]
    if draw(st.integers(0, 2)) == 0:
        # a pseudo-typed string at the same position, seen first
        pool = [draw(st.sampled_from(["1", "2.5", "true"]))] + list(pool)
    mode = draw(st.sampled_from(["scalar", "list", "list2", "overlap"]))
    if mode == "overlap":
        # overlapping literal sets whose sizes add up to more than 15 although at most 15 distinct strings occur
        base = draw(st.permutations(LITERAL_17))[:draw(st.integers(9, 14))]
        a = base[:draw(st.integers(6, len(base)))]
        b = base[draw(st.integers(0, 4)):]
        c = [base[0]] * draw(st.integers(0, 3))
        return [{k: a}, {k: b + c}] if draw(st.booleans()) else [{k: {"n_1": a, "n_2": b}}]
    if mode == "scalar":
        return [{k: s} for s in pool]
    if mode == "list":
        cut = draw(st.integers(0, len(pool)))
        return [{k: pool[:cut]}, {k: pool[cut:]}]
    cut = draw(st.integers(1, len(pool)))
    return [{k: [pool[:cut], pool[cut:]]}]


@st.composite
def comma_collision_samples(draw, universe, strs=None):
    """containers whose literal sets collide when joined with commas (['a,b'] vs ['a', 'b']; '...' vs an overflowed literal)"""
    k = draw(st.sampled_from(universe))
    ts = sorted(draw(st.lists(st.sampled_from(["a", "b", "red", "green", "x y", "", "1a"]), min_size=2, max_size=3, unique=True)))
    joined = ",".join(ts)
    wrap = draw(st.sampled_from(["list", "dict"]))
    mk = (lambda xs: list(xs)) if wrap == "list" else (lambda xs: {"n_%d" % i: x for i, x in enumerate(xs)})
    variants = [{k: mk(ts)}, {k: mk([joined])}]
    if draw(st.integers(0, 3)) == 0:
        variants = [{k: mk(["..."])}, {k: mk(["x" * 25])}]
    if draw(st.booleans()):
        variants.reverse()
    if draw(st.booleans()):
        variants.append({k: draw(st.sampled_from([1, None, "plain"]))})
    return variants


FOLD_PAIRS = [("e-mail", "email"), ("user_id", "userId"), ("item-code", "itemCode"), ("x_y", "xY"), ("Http_Url", "httpUrl"),
              ("first.name", "first_name")]


@st.composite
def fold_pair_samples(draw, universe, strs=None):
    """two keys that are equal after case/punctuation folding, in *different* objects (legitimate: only keys of one object
    must be fold-distinct), each holding an object of its own shape so that the two models are not merged"""
    a, b = draw(st.sampled_from([p for p in FOLD_PAIRS if not class_name_collision(list(p))]))
    if draw(st.booleans()):
        a, b = b, a
    ks = list(draw(st.permutations(universe)))
    h1, h2 = (ks + ks)[0], (ks + ks)[1]
    if h1 == h2:
        h2 = h1 + "_2"
    leaf = scalars(strs)
    o1 = {"pa_1": draw(leaf), "pa_2": 1, "pa_3": "x"}
    o2 = {"qb_1": draw(leaf), "qb_2": [1], "qb_3": None, "qb_4": 2.5}
    return [{h1: {a: o1, "m1": 1}, h2: {b: o2, "m2": "t", "m3": 2}}]


@st.composite
def equal_but_typed_samples(draw, universe, strs=None):
    """adjacent samples that are == in Python but hold different JSON scalar types (10 / 10.0, true / 1, false / 0)"""
    k = draw(st.sampled_from(universe))
    a, b = draw(st.sampled_from([(10, 10.0), (10.0, 10), (True, 1), (1, True), (False, 0), (0, False), (0, 0.0), (1.0, True)]))
    depth = draw(st.integers(0, 2))

    def wrapv(v):
        for _ in range(depth):
            v = {k: v} if draw(st.booleans()) else [v]
        return v
    other = {u: 1 for u in universe[:2] if u != k}
    samples = [dict(other, **{k: wrapv(a)}), dict(other, **{k: wrapv(b)})]
    if draw(st.booleans()):
        samples.append(dict(other, **{k: wrapv(a)}))
    return samples


def sample_lists(universe, strs=None, max_samples=5, max_leaves=10, weights=None):
    """G-JSON: the mix of generic and boosted shapes for one key universe."""
    parts = [
        generic_samples(universe, strs, max_samples=max_samples, max_leaves=max_leaves),
        generic_samples(universe, strs, max_samples=max_samples, max_leaves=max_leaves),
        sibling_samples(universe, strs),
        sibling_samples(universe, strs),
        recursive_samples(universe, strs),
        presence_samples(universe, strs),
        presence_samples(universe, strs),
        shared_child_samples(universe, strs),
        backref_samples(universe, strs),
        reordered_records_samples(universe, strs),
        numeric_family_samples(universe, strs),
        dictlike_samples(universe, strs),
        literal_boundary_samples(universe, strs),
        comma_collision_samples(universe, strs),
        fold_pair_samples(universe, strs),
        equal_but_typed_samples(universe, strs),
    ]
    return st.one_of(*parts)


# ---------------------------------------------------------------------------------------------
# G-OPTS

FRAMEWORKS = ["pydantic", "attrs", "dataclasses", "sqlmodel", "base"]
REGEX_POOL = [r"n_\d+", r"[ab]", r"\d+", r".*", r"n_.*", r"[a-c]", r"\w_\d+"]
PSEUDO_NAMES = ["IntString", "FloatString", "BooleanString", "IsoDateString", "IsoTimeString", "IsoDatetimeString"]


def merge_policies(extra_percents=(), extra_numbers=(), zero=False):
    """zero: include the boundary thresholds percent_0 / number_0 (every pair of models is similar).  Only where names
    play no part: one class for everything pools fold-equal keys of unrelated objects (finding folded-equal-keys)."""
    perc = st.sampled_from([50, 70, 100, 30, 99.9, 0.1] + ([0] if zero else []) + list(extra_percents))
    num = st.sampled_from([1, 2, 3, 10] + ([0] if zero else []) + list(extra_numbers))
    one = st.one_of(st.just(["exact"]), perc.map(lambda p: ["percent", p]), num.map(lambda n: ["number", n]))
    return st.one_of(st.none(), st.none(), st.lists(one, min_size=1, max_size=3))


def sregs():
    return st.one_of(
        st.just(PSEUDO_NAMES[:3]), st.just(PSEUDO_NAMES[:3]), st.just(list(PSEUDO_NAMES)), st.just(list(PSEUDO_NAMES)),
        st.just([]),
        st.sampled_from([["IntString", "BooleanString"], ["IntString"], ["FloatString", "BooleanString"]]),   # no replace pair at all
        st.lists(st.sampled_from(PSEUDO_NAMES), max_size=6, unique=True))


@st.composite
def option_sets(draw, universe=(), frameworks=FRAMEWORKS, layouts=(False, True), dict_opts=True):
    o = {
        "fw": draw(st.sampled_from(list(frameworks))),
        "nested": draw(st.sampled_from(list(layouts))),
        "merge": draw(merge_policies()),
        "sreg": draw(sregs()),
        "max_literals": draw(st.sampled_from([10, 10, 0, 1, 2, 3, 5, 16])),
        "pic": draw(st.booleans()),
        "meta": draw(st.booleans()),
        "unicode": draw(st.sampled_from([True, True, False])),
        "dkr": [],
        "dkf": [],
    }
    if dict_opts and draw(st.integers(0, 2)) == 0:
        o["dkr"] = draw(st.lists(st.sampled_from(REGEX_POOL), max_size=2, unique=True))
        if universe:
            o["dkf"] = draw(st.lists(st.sampled_from(list(universe)), max_size=2, unique=True))
    return o
