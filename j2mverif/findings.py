"""Known findings: a violation is 'known' only if its clause matches the finding's signature AND the case satisfies
the finding's predicate.  The list itself (KNOWN_FINDINGS.txt, findings/*.json) is committed and never written here."""
import re

from . import gen


def all_keys(v):
    if isinstance(v, dict):
        for k, x in v.items():
            yield k
            yield from all_keys(x)
    elif isinstance(v, list):
        for x in v:
            yield from all_keys(x)


def objects(v):
    if isinstance(v, dict):
        yield v
        for x in v.values():
            yield from objects(x)
    elif isinstance(v, list):
        for x in v:
            yield from objects(x)


def case_samples(case):
    if isinstance(case, dict):
        if "samples" in case:
            return case["samples"]
        if "keys" in case:
            return [{k: 0 for k in case["keys"]}]
    return []


def folded_equal_keys(case):
    """two distinct keys with the same fold in one object - or in one *model*: objects at the same position, or merged by
    the similarity policy, pool their keys.  Decided on the final registry where the case allows building it."""
    for s in case_samples(case):
        for o in objects(s):
            folds = [gen.fold(k) for k in o]
            if len(set(folds)) != len(folds):
                return True
    if isinstance(case, dict) and isinstance(case.get("samples"), list) and case["samples"]:
        try:
            from . import pipeline as pl
            extra = [tuple(x) for x in case.get("extra_models", [])]
            b = pl.build(case["samples"], case.get("opts") or {}, extra_models=extra, names=False)
            for m in b.reg.models:
                folds = [gen.fold(k) for k in m.type]
                if len(set(folds)) != len(folds):
                    return True
            return False
        except Exception:  # noqa: BLE001 - cannot build: fall back to the conservative reading (any two keys of the case)
            ks = {k for s in case_samples(case) for k in all_keys(s)}
            folds = [gen.fold(k) for k in ks]
            return len(set(folds)) != len(folds)
    return False


def empty_label(case):
    return any(gen.key_status(k, allow_digit_first=True) == "empty-label" for s in case_samples(case) for k in all_keys(s))


def leading_underscore_label(case):
    return any(gen.key_status(k, allow_digit_first=True) == "leading-underscore-label"
               for s in case_samples(case) for k in all_keys(s))


def digit_word_collision(case):
    """one object holds a digit-first key and another key that equals its spelled-out form ('1day' / 'one_day')"""
    return any(gen.digit_word_collision(list(o)) for s in case_samples(case) for o in objects(s))


def reserved_names(case):
    return any(gen.key_status(k, allow_digit_first=True) == "framework-reserved-field-names"
               for s in case_samples(case) for k in all_keys(s))


def class_name_collision(case):
    return any(gen.class_name_collision(sorted(set(all_keys(s)))) for s in [case_samples(case)])


def nfkc_unstable_key(case):
    o = case.get("opts", {}) if isinstance(case, dict) else {}
    if o.get("unicode", True):
        return False
    return any(gen.nfkc_unstable(k) for s in case_samples(case) for k in all_keys(s))


def attrs_field_converter(case):
    o = case.get("opts", {}) if isinstance(case, dict) else {}
    return o.get("fw") == "attrs" and not o.get("pic")


def pydantic_optional_container_of_none(case):
    o = case.get("opts", {}) if isinstance(case, dict) else {}
    return o.get("fw") in ("pydantic", "sqlmodel")


def all_strings(v):
    if isinstance(v, str):
        yield v
    elif isinstance(v, dict):
        for x in v.values():
            yield from all_strings(x)
    elif isinstance(v, list):
        for x in v:
            yield from all_strings(x)


def all_numbers(v):
    if isinstance(v, (int, float)) and not isinstance(v, bool):
        yield v
    elif isinstance(v, dict):
        for x in v.values():
            yield from all_numbers(x)
    elif isinstance(v, list):
        for x in v:
            yield from all_numbers(x)


def pydantic_stricter_datetime(case):
    """some sample string is accepted by a registered Iso* pseudo-type but rejected by pydantic.v1's own parser for
    the actual type the pydantic/sqlmodel output is annotated with"""
    o = case.get("opts", {}) if isinstance(case, dict) else {}
    if o.get("fw") not in ("pydantic", "sqlmodel"):
        return False
    from . import pipeline as pl
    from .oracle import accepts
    from pydantic.v1 import datetime_parse as dp
    parsers = {"IsoDateString": dp.parse_date, "IsoTimeString": dp.parse_time, "IsoDatetimeString": dp.parse_datetime}
    names = [n for n in pl.norm_opts(o)["sreg"] if n in parsers]
    if not names:
        return False
    for s in set(all_strings(case_samples(case))):
        for n in names:
            if accepts(pl.PSEUDO[n], s):
                try:
                    parsers[n](s)
                except Exception:  # noqa: BLE001
                    return True
    return False


def pydantic_parser_overflow(case):
    """some sample string makes pydantic.v1's own date/time/datetime parser raise something that is not a ValueError
    (OverflowError for huge numbers read as timestamps); pydantic does not catch it while trying union members"""
    o = case.get("opts", {}) if isinstance(case, dict) else {}
    if o.get("fw") not in ("pydantic", "sqlmodel"):
        return False
    from . import pipeline as pl
    from pydantic.v1 import datetime_parse as dp
    parsers = {"IsoDateString": dp.parse_date, "IsoTimeString": dp.parse_time, "IsoDatetimeString": dp.parse_datetime}
    names = [n for n in pl.norm_opts(o)["sreg"] if n in parsers]
    values = set(all_strings(case_samples(case))) | set(all_numbers(case_samples(case)))
    for s in values:
        for n in names:
            try:
                parsers[n](s)
            except ValueError:
                pass
            except Exception:  # noqa: BLE001
                return True
    return False


def legacy_list_order(case):
    return bool(isinstance(case, dict) and case.get("legacy_first"))


PREDICATES = dict(
    folded_equal_keys=folded_equal_keys,
    digit_word_collision=digit_word_collision,
    empty_label=empty_label,
    leading_underscore_label=leading_underscore_label,
    reserved_names=reserved_names,
    attrs_field_converter=attrs_field_converter,
    pydantic_optional_container_of_none=pydantic_optional_container_of_none,
    legacy_list_order=legacy_list_order,
    pydantic_parser_overflow=pydantic_parser_overflow,
    nfkc_unstable_key=nfkc_unstable_key,
    class_name_collision=class_name_collision,
    pydantic_stricter_datetime=pydantic_stricter_datetime,
)


def clause_matches(ent, clause):
    pats = ent.get("clause_patterns") or []
    return any(re.search(p, clause) for p in pats)


def is_known(active, phase, case, clause):
    for f, ent in active:
        if not clause_matches(ent, clause):
            continue
        pred = PREDICATES.get(ent.get("predicate"))
        try:
            if pred and pred(case):
                return f["key"]
        except Exception:  # noqa: BLE001
            continue
    return None
