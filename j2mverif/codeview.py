"""Render + load an emitted module and relate its classes to the models of the registry."""
import ast
import inspect
import keyword
import typing

from . import oracle, pipeline as pl
from .core import exc_sig
from .pipeline import dt


class View:
    __slots__ = ("src", "tree", "module", "ld", "cls_of", "model_of", "nested", "opts", "fw", "imported")


def render_owned(r, b, opts, clause="render"):
    nested = bool(opts["nested"] and pl.is_tree(b.reg, roots_referenced=True))
    ropts = dict(opts, nested=nested)
    try:
        return pl.render(b.reg, ropts), nested
    except RecursionError:
        r.fail(clause + ":RecursionError", "")
    except Exception as e:  # noqa: BLE001
        t, where = exc_sig(e)
        r.fail(f"{clause}:{t}@{where}", f"{t}: {e}")
    return None, nested


def load_view(r, b, opts, src, nested, own=True):
    """-> View or None.  own=True: load problems are violations (C03 style); else the case is skipped."""
    def bad(clause, detail):
        if own:
            r.fail(clause, detail)
        else:
            r.skip = "load-problem:" + clause
        return None

    v = View()
    v.src, v.nested, v.opts, v.fw = src, nested, opts, opts["fw"]
    try:
        v.tree = ast.parse(src)
    except SyntaxError as e:
        return bad("load:SyntaxError", f"{e}\n{src}")
    v.imported = oracle.module_imported_names(v.tree)
    try:
        v.module = pl.load_source(src)
    except RecursionError:
        return bad("load:RecursionError", src)
    except Exception as e:  # noqa: BLE001
        return bad("load:" + type(e).__name__, f"{e}\n{src}")
    try:
        v.ld = pl.resolve_hints(v.module, v.fw)
    except RecursionError:
        return bad("hints:RecursionError", src)
    except Exception as e:  # noqa: BLE001
        return bad("hints:" + type(e).__name__, f"{e}\n{src}")
    by_name = {}
    for cls, encl, path in v.ld.classes:
        by_name.setdefault(cls.__name__, []).append(cls)
    v.cls_of, v.model_of = {}, {}
    models = list(b.reg.models)
    if len(v.ld.classes) != len(models):
        return bad("class-count", f"{len(v.ld.classes)} classes for {len(models)} models\n{src}")
    for m in models:
        cs = by_name.get(m.name, [])
        if len(cs) != 1:
            return bad("class-for-model", f"model {m} has {len(cs)} classes named {m.name!r}\n{src}")
        v.cls_of[m.index] = cs[0]
        v.model_of[cs[0]] = m
    return v


def ast_name_problems(tree, imported):
    """identifier / keyword / uniqueness / import-shadowing clauses over class and field names of the module AST"""
    out = []

    def scope(body, where, is_module):
        names = []
        for node in body:
            if isinstance(node, ast.ClassDef):
                names.append(("class", node.name))
                scope(node.body, where + "." + node.name, False)
            elif isinstance(node, ast.AnnAssign) and isinstance(node.target, ast.Name):
                names.append(("field", node.target.id))
            elif isinstance(node, ast.Assign) and not is_module:
                for t in node.targets:
                    if isinstance(t, ast.Name):
                        names.append(("field", t.id))
        seen = {}
        for kind, n in names:
            if not n.isidentifier():
                out.append(("name-not-identifier", f"{where}: {n!r}"))
            if keyword.iskeyword(n):
                out.append(("name-is-keyword", f"{where}: {n!r}"))
            if n in imported:
                out.append(("name-shadows-import", f"{where}: {kind} {n!r}"))
            if n in seen:
                out.append(("name-not-unique-in-scope", f"{where}: {n!r} ({seen[n]} and {kind})"))
            seen[n] = kind

    scope(tree.body, "<module>", True)
    return out


def annotation_classes(t, acc):
    """all class objects mentioned in an evaluated annotation"""
    if t is typing.Any or t is None or t is type(None):
        return
    o = typing.get_origin(t)
    if o is typing.Literal:
        return
    if o is not None:
        for a in typing.get_args(t):
            annotation_classes(a, acc)
        return
    if isinstance(t, typing.ForwardRef) or isinstance(t, str):
        acc.append(("unresolved", t))
        return
    if inspect.isclass(t):
        acc.append(("class", t))
        return
    acc.append(("other", t))
