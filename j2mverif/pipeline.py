"""The library pipeline, driven from a plain-JSON option set, plus the loader of emitted modules."""
import inspect
import sys
import types
import typing
import itertools

from .env import bootstrap

bootstrap()

from json_to_models.generator import MetadataGenerator  # noqa: E402
from json_to_models.registry import (  # noqa: E402
    ModelRegistry, ModelFieldsEquals, ModelFieldsPercentMatch, ModelFieldsNumberMatch)
from json_to_models.models.base import generate_code, GenericModelCodeGenerator  # noqa: E402
from json_to_models.models.pydantic import PydanticModelCodeGenerator  # noqa: E402
from json_to_models.models.attr import AttrsModelCodeGenerator  # noqa: E402
from json_to_models.models.dataclasses import DataclassModelCodeGenerator  # noqa: E402
from json_to_models.models.sqlmodel import SqlModelCodeGenerator  # noqa: E402
from json_to_models.models.structure import compose_models, compose_models_flat  # noqa: E402
from json_to_models import dynamic_typing as dt  # noqa: E402
from json_to_models.dynamic_typing import (  # noqa: E402
    StringSerializableRegistry, IntString, FloatString, BooleanString,
    IsoDateString, IsoTimeString, IsoDatetimeString)

FRAMEWORKS = ("base", "pydantic", "sqlmodel", "attrs", "dataclasses")
GENS = dict(base=GenericModelCodeGenerator, pydantic=PydanticModelCodeGenerator,
            attrs=AttrsModelCodeGenerator, dataclasses=DataclassModelCodeGenerator,
            sqlmodel=SqlModelCodeGenerator)
PSEUDO = dict(IntString=IntString, FloatString=FloatString, BooleanString=BooleanString,
              IsoDateString=IsoDateString, IsoTimeString=IsoTimeString,
              IsoDatetimeString=IsoDatetimeString)
PSEUDO_NAMES = tuple(PSEUDO)
DEFAULT_SREG = ("IntString", "FloatString", "BooleanString")
FULL_SREG = PSEUDO_NAMES

DEFAULT_OPTS = dict(fw="base", nested=False, merge=None, dkr=[], dkf=[], sreg=list(DEFAULT_SREG),
                    max_literals=10, pic=False, meta=False, unicode=True, style=None, slots=False)


def norm_opts(opts):
    o = dict(DEFAULT_OPTS)
    o.update(opts or {})
    return o


def make_sreg(names):
    """Explicit string-type registry; the IntString -> FloatString replace edge exists whenever both are present
    (as in the default registry)."""
    r = StringSerializableRegistry()
    names = list(names)
    helper = False
    if names[-3:] == ["IsoDateString", "IsoTimeString", "IsoDatetimeString"]:
        # the three date/time types at the end, in the documented order: register them the documented way
        names, helper = names[:-3], True
    present = set(names) | ({"IsoDateString", "IsoTimeString", "IsoDatetimeString"} if helper else set())
    for n in names:
        cls = PSEUDO[n]
        if cls is FloatString and "IntString" in present:
            r.add(replace_types=(IntString,), cls=cls)
        else:
            r.add(cls=cls)
    if helper:
        dt.register_datetime_classes(r)
    return r


def make_cmps(merge):
    if merge is None:
        return ()
    out = []
    for m in merge:
        kind = m[0]
        if kind == "exact":
            out.append(ModelFieldsEquals())
        elif kind == "percent":
            out.append(ModelFieldsPercentMatch(m[1] / 100))
        elif kind == "number":
            out.append(ModelFieldsNumberMatch(int(m[1])))
        else:
            raise ValueError(kind)
    return tuple(out)


class Built:
    __slots__ = ("gen", "reg", "replaces", "sreg", "opts", "roots")

    def __init__(self, gen, reg, replaces, sreg, opts, roots):
        self.gen, self.reg, self.replaces, self.sreg, self.opts, self.roots = gen, reg, replaces, sreg, opts, roots


def build(samples, opts=None, name="Root", extra_models=None, merge=True, names=True):
    """samples -> final registry. extra_models: list of (name, samples) for further root models."""
    opts = norm_opts(opts)
    if name == "Root" and opts.get("root"):
        name = opts["root"]
    if opts.get("default_registry"):
        # ordinary library use: no registry passed, the process-wide default one (int/float/bool strings) is used
        sreg = dt.registry
        gen = MetadataGenerator(dict_keys_regex=list(opts["dkr"]) or None, dict_keys_fields=list(opts["dkf"]) or None)
    else:
        sreg = make_sreg(opts["sreg"])
        gen = MetadataGenerator(str_types_registry=sreg, dict_keys_regex=list(opts["dkr"]) or None,
                                dict_keys_fields=list(opts["dkf"]) or None)
    reg = ModelRegistry(*make_cmps(opts["merge"]))
    roots = []
    for nm, smp in [(name, samples)] + list(extra_models or []):
        meta = gen.generate(*smp)
        ptr = reg.process_meta_data(meta, model_name=nm)
        roots.append(ptr)
    replaces = reg.merge_models(generator=gen) if merge else []
    if names:
        reg.generate_names()
    return Built(gen, reg, replaces, sreg, opts, roots)


def gen_kwargs(opts):
    opts = norm_opts(opts)
    fw = opts["fw"]
    kw = dict(max_literals=opts["max_literals"], convert_unicode=opts["unicode"],
              post_init_converters=opts["pic"])
    if fw in ("attrs", "dataclasses"):
        kw["meta"] = opts["meta"]
    if opts.get("slots") and fw in ("attrs", "dataclasses"):
        # documented generator option: extra keyword arguments for the @attr.s / @dataclass decorator
        kw["attrs_kwargs" if fw == "attrs" else "dataclass_kwargs"] = {"slots": True}
    if opts.get("deco_kwargs") and fw in ("attrs", "dataclasses"):
        kw["attrs_kwargs" if fw == "attrs" else "dataclass_kwargs"] = dict(opts["deco_kwargs"])
    style = opts.get("style")
    if style == "no-actual-type":
        kw["types_style"] = {dt.StringSerializable: {dt.StringSerializable.TypeStyle.use_actual_type: False}}
    elif style == "no-literals":
        kw["types_style"] = {dt.StringLiteral: {dt.StringLiteral.TypeStyle.use_literals: False}}
    elif style == "int-no-actual-type":
        kw["types_style"] = {dt.IntString: {dt.StringSerializable.TypeStyle.use_actual_type: False}}
    elif style == "actual-type":
        kw["types_style"] = {dt.StringSerializable: {dt.StringSerializable.TypeStyle.use_actual_type: True}}
    return kw


def structure(reg, nested):
    return (compose_models if nested else compose_models_flat)(reg.models_map)


def render(reg, opts, preamble=None):
    opts = norm_opts(opts)
    st = structure(reg, opts["nested"])
    return generate_code(st, GENS[opts["fw"]], class_generator_kwargs=gen_kwargs(opts), preamble=preamble)


def render_single_model(reg, opts, index):
    """public per-class API: <Generator>(model, **kwargs).generate() outside generate_code() -> 'imports\n---\nclass text'"""
    opts = norm_opts(opts)
    models = list(reg.models)
    # generators of all models are constructed first (as generate_code does), so that every class name is already
    # converted and the text cannot depend on which other models happen to have been rendered before
    gens = [GENS[opts["fw"]](m, **gen_kwargs(opts)) for m in models]
    imports, text = gens[index % len(models)].generate()
    return dt.compile_imports(imports) + "\n---\n" + text


def root_models(reg):
    return [m for m in reg.models if any(p.parent is None for p in m.pointers)]


def reachable_models(reg):
    """indexes of models reachable from root models through field types"""
    by_index = {m.index: m for m in reg.models}
    seen = set()
    todo = [m for m in root_models(reg)]
    while todo:
        m = todo.pop()
        if m.index in seen:
            continue
        seen.add(m.index)
        for t in m.type.values():
            for ptr in iter_ptrs(t):
                if ptr.type.index not in seen:
                    todo.append(ptr.type)
    return seen


def iter_ptrs(t):
    if isinstance(t, dt.ModelPtr):
        yield t
    elif isinstance(t, dt.BaseType):
        for c in t:
            yield from iter_ptrs(c)


def is_tree(reg, roots_referenced=False):
    """Each non-root model referenced from exactly one class, no self reference, everything reachable (the nested
    layout's stated domain).  roots_referenced=False: a tree proper, roots unreferenced (C12's domain).
    roots_referenced=True: root models may be referenced from any number of classes (a child that points back to its
    root) - C03's claim constrains non-root models only."""
    reach = reachable_models(reg)
    for m in reg.models:
        if m.index not in reach:
            return False
        refs = {}
        for owner in reg.models:
            n = sum(1 for t in owner.type.values() for p in iter_ptrs(t) if p.type is m)
            if n:
                refs[owner.index] = n
        is_root = any(p.parent is None for p in m.pointers)
        if is_root:
            if refs and not roots_referenced:
                return False
        else:
            if len(refs) != 1 or m.index in refs:
                return False
        # pointer bookkeeping has to agree with the field graph, else layout functions see another graph
        parents = {p.parent.index for p in m.pointers if p.parent is not None}
        if parents != set(refs):
            return False
    return True


def is_acyclic(reg):
    """no model reaches itself through field references, and every model is reachable from a root"""
    graph = {m.index: {p.type.index for t in m.type.values() for p in iter_ptrs(t)} for m in reg.models}
    if len(reachable_models(reg)) != len(graph):
        return False
    color = {}

    def dfs(u):
        color[u] = 1
        for v in graph.get(u, ()):
            if color.get(v) == 1:
                return False
            if v not in color and not dfs(v):
                return False
        color[u] = 2
        return True

    try:
        return all(dfs(u) for u in list(graph) if u not in color)
    except RecursionError:
        return False


# ---------------------------------------------------------------------------------------------
# loader

_counter = itertools.count()


class Loaded:
    __slots__ = ("module", "classes", "hints", "paths", "ns")


def load_source(src, fw=None):
    """compile + exec emitted text in a throw-away module that sees only its own imports."""
    name = "j2m_emitted_%d" % next(_counter)
    m = types.ModuleType(name)
    m.__dict__["__builtins__"] = __builtins__ if isinstance(__builtins__, dict) else __builtins__.__dict__
    sys.modules[name] = m
    try:
        exec(compile(src, name, "exec"), m.__dict__)
    finally:
        sys.modules.pop(name, None)
    return m


def walk_classes(module):
    """-> list of (cls, enclosing namespaces list [outermost..], dotted path); module-level order preserved."""
    out = []

    def rec(cls, encl, path):
        out.append((cls, encl, path))
        for k, v in list(vars(cls).items()):
            if inspect.isclass(v) and v.__module__ == module.__name__ and v.__qualname__.startswith(cls.__qualname__ + "."):
                rec(v, encl + [cls], path + "." + v.__name__)

    for k, v in list(vars(module).items()):
        if inspect.isclass(v) and v.__module__ == module.__name__ and "." not in v.__qualname__:
            rec(v, [], v.__name__)
    return out


def resolve_hints(module, fw):
    """-> Loaded with classes list, hints per class (forward refs resolved with enclosing class namespaces)."""
    ld = Loaded()
    ld.module = module
    ld.classes = walk_classes(module)
    ld.hints = {}
    ld.paths = {}
    ld.ns = {}
    for cls, encl, path in ld.classes:
        # Python scoping: an annotation in a class body sees that body's own names and the module globals - not the names of
        # enclosing class bodies (so a reference to a class nested elsewhere needs a dotted path from a module-level class)
        ns = {k: v for k, v in vars(cls).items() if inspect.isclass(v)}
        ld.ns[cls] = ns
        ld.paths[cls] = path
    if fw in ("pydantic", "sqlmodel"):
        top = {k: v for k, v in vars(module).items() if inspect.isclass(v)}
        for cls, encl, path in ld.classes:
            cls.update_forward_refs(**{**top, **ld.ns[cls]})
    for cls, encl, path in ld.classes:
        ld.hints[cls] = typing.get_type_hints(cls, vars(module), ld.ns[cls])
    return ld
