"""Deterministic cooperative scheduler for worker threads (C15).

Each worker runs under sys.settrace; at every call/return event of a function defined in json_to_models the worker parks
on its own semaphore and the controller resumes the thread named by the next element of the schedule (then round-robin).
An interleaving is therefore a plain list of ints that shrinks and replays.  Yield points are Python-level call/return
events, not bytecodes."""
import os
import sys
import threading

from .env import REPO

PKG = os.path.join(REPO, "json_to_models") + os.sep


class Sched:
    def __init__(self, jobs, schedule, step_timeout=20.0, thread_name=None):
        self.thread_name = thread_name
        self.jobs = jobs
        self.schedule = list(schedule)
        self.n = len(jobs)
        self.sems = [threading.Semaphore(0) for _ in jobs]
        self.ctl = threading.Semaphore(0)
        self.done = [False] * self.n
        self.results = [None] * self.n
        self.inside = [0] * self.n          # depth inside generate_code per thread
        self.steps = 0
        self.overlap_steps = 0              # steps at which >= 2 threads were inside generate_code
        self.aborted = False
        self.step_timeout = step_timeout

    def _tracer(self, i):
        def local(frame, event, arg):
            if event == "return":
                if frame.f_code.co_name == "generate_code":
                    self.inside[i] -= 1
                self._yield(i)
            return local

        def glob(frame, event, arg):
            if event == "call" and frame.f_code.co_filename.startswith(PKG):
                if frame.f_code.co_name == "generate_code":
                    self.inside[i] += 1
                self._yield(i)
                return local
            return None

        return glob

    def _yield(self, i):
        if self.aborted:
            return
        self.ctl.release()
        self.sems[i].acquire()

    def _worker(self, i):
        self.sems[i].acquire()
        sys.settrace(self._tracer(i))
        try:
            self.results[i] = ("ok", self.jobs[i]())
        except BaseException as e:  # noqa: BLE001
            self.results[i] = ("exc", type(e).__name__, str(e)[:200])
        finally:
            sys.settrace(None)
            self.done[i] = True
            self.ctl.release()

    def run(self):
        ts = [threading.Thread(target=self._worker, args=(i,), daemon=True, **({"name": self.thread_name} if self.thread_name else {}))
              for i in range(self.n)]
        for t in ts:
            t.start()
        pos = 0
        while not all(self.done):
            runnable = [i for i in range(self.n) if not self.done[i]]
            if pos < len(self.schedule):
                pick = runnable[self.schedule[pos] % len(runnable)]
                pos += 1
            else:
                pick = runnable[self.steps % len(runnable)]
            self.steps += 1
            if sum(1 for i in runnable if self.inside[i] > 0) >= 2:
                self.overlap_steps += 1
            self.sems[pick].release()
            if not self.ctl.acquire(timeout=self.step_timeout):
                # a worker blocked on something the scheduler does not own: give up control, let everything finish
                self.aborted = True
                for s in self.sems:
                    s.release()
                    s.release()
                break
        for t in ts:
            t.join(timeout=self.step_timeout)
        return self.results
