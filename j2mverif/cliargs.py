"""Option set (plain JSON) -> command line arguments, written from the documented meaning of each flag (--help / README)."""


def merge_args(merge):
    if merge is None:
        return []
    out = ["--merge"]
    for m in merge:
        if m[0] == "exact":
            out.append("exact")
        elif m[0] == "percent":
            out.append("percent_%s" % _num(m[1]))
        else:
            out.append("number_%d" % int(m[1]))
    return out


def _num(x):
    return repr(x) if isinstance(x, float) and not float(x).is_integer() else str(int(x))


def option_args(opts):
    """opts as in pipeline.norm_opts; sreg must be the default 3 or all 6 (--datetime) for the CLI"""
    a = ["-f", opts["fw"], "-s", "nested" if opts.get("nested") else "flat"]
    a += merge_args(opts.get("merge"))
    if opts.get("max_literals", 10) != 10:
        a += ["--max-strings-literals", str(opts["max_literals"])]
    if len(opts.get("sreg", [])) == 6:
        a.append("--datetime")
    if opts.get("pic"):
        a.append("--strings-converters")
    if not opts.get("unicode", True):
        a.append("--disable-unicode-conversion")
    if opts.get("dkr"):
        a += ["--dict-keys-regex"] + list(opts["dkr"])
    if opts.get("dkf"):
        a += ["--dict-keys-fields"] + list(opts["dkf"])
    if opts.get("meta") and opts["fw"] in ("attrs", "dataclasses"):
        a += ["--code-generator-kwargs", "meta=true"]
    return a
