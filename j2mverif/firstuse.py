"""Fresh interpreter whose very first use of the library is several pipelines at once (C15, phase first-use).
stdin: {"pipelines": [{"samples": ..., "opts": ...}, ...]} -> stdout: [["ok", text] | ["exc", type, message], ...]"""
import json
import sys
import threading


def main():
    spec = json.loads(sys.stdin.read())
    from . import pipeline as pl          # imports the library; nothing has been generated or rendered yet
    pipes = spec["pipelines"]
    results = [None] * len(pipes)
    barrier = threading.Barrier(len(pipes))

    def w(i):
        try:
            barrier.wait()
            b = pl.build(pipes[i]["samples"], pipes[i]["opts"])
            results[i] = ["ok", pl.render(b.reg, pl.norm_opts(pipes[i]["opts"]))]
        except BaseException as e:  # noqa: BLE001
            results[i] = ["exc", type(e).__name__, str(e)[:200]]
    sys.setswitchinterval(1e-6)
    ts = [threading.Thread(target=w, args=(i,)) for i in range(len(pipes))]
    for t in ts:
        t.start()
    for t in ts:
        t.join()
    sys.stdout.write(json.dumps(results))


if __name__ == "__main__":
    main()
