"""JSON encoding of IR types (cases must be plain JSON; IR objects are mutable, so every evaluation decodes afresh)."""
from . import pipeline as pl
from .pipeline import dt

SCALARS = {"int": int, "float": float, "bool": bool, "str": str}


def decode(t, models=None):
    """t: 'int' | 'Null' | 'Unknown' | 'IntString'... | ['List', t] | ['Dict', t] | ['Optional', t] | ['Union', t...]
    | ['Lit', [s...]] | ['LitOverflow'] | ['Model', {key: t}] (raw dict) | ['Ptr', name] (pointer to models[name])"""
    if isinstance(t, str):
        if t in SCALARS:
            return SCALARS[t]
        if t == "Null":
            return dt.Null
        if t == "Unknown":
            return dt.Unknown
        if t in pl.PSEUDO:
            return pl.PSEUDO[t]
        raise ValueError(t)
    head = t[0]
    if head == "List":
        return dt.DList(decode(t[1], models))
    if head == "Dict":
        return dt.DDict(decode(t[1], models))
    if head == "Optional":
        return dt.DOptional(decode(t[1], models))
    if head == "Tuple":
        return dt.DTuple(*[decode(x, models) for x in t[1:]])
    if head == "Union":
        return dt.DUnion(*[decode(x, models) for x in t[1:]])
    if head == "Lit":
        return dt.StringLiteral(set(t[1]))
    if head == "LitOverflow":
        return dt.StringLiteral({"x" * 25})
    if head == "Model":
        return {k: decode(v, models) for k, v in t[1].items()}
    if head == "Ptr":
        return dt.ModelPtr(models[t[1]])
    raise ValueError(t)


def describe(t):
    """readable, order-preserving string of an IR object (for details and for idempotence comparison)"""
    if isinstance(t, dict):
        return "{" + ", ".join(f"{k}: {describe(v)}" for k, v in t.items()) + "}"
    if isinstance(t, dt.ModelPtr):
        return f"Ptr({t.type.index})"
    if isinstance(t, dt.ModelMeta):
        return f"Model#{t.index}{describe(t.type)}"
    if isinstance(t, dt.DOptional):
        return f"Optional[{describe(t.type)}]"
    if isinstance(t, dt.DUnion):
        return "Union[" + ", ".join(describe(x) for x in t.types) + "]"
    if isinstance(t, dt.DTuple):
        return "Tuple[" + ", ".join(describe(x) for x in t.types) + "]"
    if isinstance(t, dt.DList):
        return f"List[{describe(t.type)}]"
    if isinstance(t, dt.DDict):
        return f"Dict[{describe(t.type)}]"
    if isinstance(t, dt.StringLiteral):
        return "Lit..." if t.overflowed else "Lit" + repr(sorted(t.literals))
    if t is dt.Null:
        return "Null"
    if t is dt.Unknown:
        return "Unknown"
    if isinstance(t, type):
        return t.__name__
    return repr(t)
