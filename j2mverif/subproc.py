"""Persistent child interpreters and CLI subprocess helper."""
import json
import os
import subprocess
import sys

from .env import child_env, VERIF, HarnessError

PY = sys.executable


class Child:
    def __init__(self, hashseed):
        self.hashseed = str(hashseed)
        self.proc = subprocess.Popen([PY, "-m", "j2mverif.child"], stdin=subprocess.PIPE, stdout=subprocess.PIPE,
                                     stderr=subprocess.DEVNULL, env=child_env(self.hashseed), cwd=VERIF, text=True,
                                     encoding="utf-8", bufsize=1)

    def send(self, req):
        self.proc.stdin.write(json.dumps(req) + "\n")
        self.proc.stdin.flush()

    def recv(self):
        line = self.proc.stdout.readline()
        if not line:
            raise HarnessError(f"child (hashseed {self.hashseed}) died")
        return json.loads(line)

    def ask(self, req):
        self.send(req)
        return self.recv()

    def close(self):
        try:
            self.send({"op": "quit"})
            self.proc.stdin.close()
            self.proc.wait(timeout=5)
        except Exception:  # noqa: BLE001
            self.proc.kill()


_POOLS = {}


def children(seeds):
    key = tuple(str(s) for s in seeds)
    if key not in _POOLS:
        _POOLS[key] = [Child(s) for s in key]
    return _POOLS[key]


def close_all():
    for cs in _POOLS.values():
        for c in cs:
            c.close()
    _POOLS.clear()


def ask_all(cs, reqs):
    """send request i to child i (all first, then collect) so children work in parallel"""
    for c, q in zip(cs, reqs):
        c.send(q)
    return [c.recv() for c in cs]


def run_cli(argv, hashseed="0", cwd=None, timeout=120, input_text=None, extra_env=None):
    """real `python -m json_to_models` subprocess -> (returncode, stdout, stderr)"""
    env = child_env(hashseed)
    if extra_env:
        env.update(extra_env)
    p = subprocess.run([PY, "-m", "json_to_models"] + list(argv), env=env, cwd=cwd or VERIF,
                       capture_output=True, text=True, encoding="utf-8", timeout=timeout, input=input_text)
    return p.returncode, p.stdout, p.stderr
