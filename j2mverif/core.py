"""Result object, exception ownership helpers, hashing — shared by all property modules."""
import collections
import hashlib
import json
import os
import traceback

from .env import REPO, HarnessError  # noqa: F401


class R:
    """result of checking one case"""
    __slots__ = ("viol", "labels", "nontrivial", "skip", "counters")

    def __init__(self):
        self.viol = []                      # [(clause, detail)]
        self.labels = set()                 # generator-distribution classes this case belongs to
        self.nontrivial = False
        self.skip = None                    # reason the case could not be used (counted, never reported)
        self.counters = collections.Counter()

    def fail(self, clause, detail=""):
        self.viol.append((clause, str(detail)[:1500]))

    def label(self, *names):
        self.labels.update(names)


def exc_sig(e):
    """(exception type, innermost json_to_models function) — stable bucket key for a product crash"""
    tb = traceback.extract_tb(e.__traceback__)
    fn = None
    for fr in tb:
        f = os.path.abspath(fr.filename)
        if f.startswith(REPO + os.sep) and "json_to_models" in f:
            fn = os.path.basename(f)[:-3] + "." + fr.name
    return type(e).__name__, fn


def owned(r, clause, fn, *a, **kw):
    """Run a product operation whose exceptions the property owns: an exception is a violation `clause:<sig>`.
    Returns (ok, value)."""
    try:
        return True, fn(*a, **kw)
    except RecursionError as e:
        r.fail(f"{clause}:RecursionError", "recursion")
        return False, None
    except Exception as e:  # noqa: BLE001 - ownership is the point
        t, where = exc_sig(e)
        r.fail(f"{clause}:{t}@{where}", f"{t}: {e}")
        return False, None


def unowned(r, fn, *a, **kw):
    """Run a product operation whose crashes belong to another property: on exception the case is skipped."""
    try:
        return True, fn(*a, **kw)
    except Exception as e:  # noqa: BLE001
        t, where = exc_sig(e)
        r.skip = f"pipeline-error:{t}@{where}"
        return False, None


def canon_json(case):
    return json.dumps(case, sort_keys=True, ensure_ascii=False, default=str)


def case_hash(case):
    return int.from_bytes(hashlib.blake2b(canon_json(case).encode("utf-8", "surrogatepass"), digest_size=8).digest(), "big")


def bucket_hash(clause):
    return hashlib.blake2b(clause.encode(), digest_size=6).hexdigest()


# walkers over JSON samples used for input-side labels -------------------------------------------------

def iter_objects(v, path=()):
    if isinstance(v, dict):
        yield path, v
        for k, x in v.items():
            yield from iter_objects(x, path + (k,))
    elif isinstance(v, list):
        for x in v:
            yield from iter_objects(x, path + ("[]",))


def iter_positions(samples):
    """(path, value) for every value under the samples, list elements share the path + '[]'"""
    def rec(v, path):
        yield path, v
        if isinstance(v, dict):
            for k, x in v.items():
                yield from rec(x, path + (k,))
        elif isinstance(v, list):
            for x in v:
                yield from rec(x, path + ("[]",))
    for s in samples:
        for k, x in s.items():
            yield from rec(x, (k,))


def kind_of(v):
    if v is None:
        return "null"
    if isinstance(v, bool):
        return "bool"
    if isinstance(v, int):
        return "int"
    if isinstance(v, float):
        return "float"
    if isinstance(v, str):
        return "str"
    if isinstance(v, list):
        return "list" if v else "empty-list"
    if isinstance(v, dict):
        return "dict" if v else "empty-dict"
    return "?"


def input_labels(samples):
    """input-side features (never depend on what the code under test returned)"""
    labs = set()
    kinds = collections.defaultdict(set)
    for path, v in iter_positions(samples):
        kinds[path].add(kind_of(v))
        if isinstance(v, list) and v == [None]:
            kinds[path].add("list-null")
    if any(len(k - {"null"}) > 1 for k in kinds.values()):
        labs.add("mixed-kinds-at-position")
    if any({"empty-list", "list-null"} <= k for k in kinds.values()):
        labs.add("empty-list-next-to-list-null")
    if any("null" in k for k in kinds.values()):
        labs.add("null-value")
    objs = [frozenset(o) for s in samples for _, o in iter_objects(s) if o]
    sim = False
    for i in range(len(objs)):
        for j in range(i + 1, len(objs)):
            a, b = objs[i], objs[j]
            if len(a | b) and len(a & b) / len(a | b) >= 0.7:
                sim = True
                break
        if sim:
            break
    if sim:
        labs.add("similar-objects")
    if len(samples) > 1:
        labs.add("multi-sample")
        if len({frozenset(s) for s in samples}) > 1:
            labs.add("key-sets-differ")
    if any(isinstance(v, (dict, list)) and v for s in samples for v in s.values()):
        labs.add("nested")
    return labs
