"""Bootstrap: make ``json_to_models`` importable from the tree under test.

The tree is ``/repo`` unless ``J2M_REPO`` points at a scratch copy (sensitivity self-tests only).
Every check runs in a fresh interpreter, so "rebuilding" is importing the working tree again.
"""
import os
import sys
import warnings

HERE = os.path.dirname(os.path.abspath(__file__))
VERIF = os.path.dirname(HERE)
REPO = os.path.abspath(os.environ.get("J2M_REPO", "/repo"))
STUBS = os.path.join(HERE, "stubs")


class HarnessError(Exception):
    """Problem of the verification machinery itself (never a property violation)."""


def bootstrap():
    for p in (STUBS, REPO):
        if p in sys.path:
            sys.path.remove(p)
    sys.path.insert(0, STUBS)
    sys.path.insert(0, REPO)
    warnings.simplefilter("ignore")
    import json_to_models
    f = os.path.abspath(json_to_models.__file__)
    if not f.startswith(REPO + os.sep):
        raise HarnessError(f"json_to_models imported from {f}, expected under {REPO}")
    return REPO


def child_env(hashseed="0"):
    env = dict(os.environ)
    env["PYTHONHASHSEED"] = str(hashseed)
    env["PYTHONDONTWRITEBYTECODE"] = "1"
    env["PYTHONWARNINGS"] = "ignore"
    env["J2M_REPO"] = REPO
    pp = [REPO, STUBS, VERIF]
    if env.get("PYTHONPATH"):
        pp.append(env["PYTHONPATH"])
    env["PYTHONPATH"] = os.pathsep.join(pp)
    for k in ("TRAVIS", "FORCE_COVERAGE"):
        env.pop(k, None)
    return env
