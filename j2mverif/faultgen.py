"""Custom code generators for CLI checks (-f custom --code-generator j2mverif.faultgen.<Class>)."""
from json_to_models.models.base import GenericModelCodeGenerator


class RaisingGenerator(GenericModelCodeGenerator):
    """raises inside code generation after k classes have been rendered (C17: 'generation raises')"""
    calls = 0

    def __init__(self, model, k="0", **kwargs):
        self.k = int(k)
        super().__init__(model, **kwargs)

    def generate(self, *args, **kwargs):
        RaisingGenerator.calls += 1
        if RaisingGenerator.calls > self.k:
            raise RuntimeError("injected generator failure")
        return super().generate(*args, **kwargs)


class PermissiveGenerator(GenericModelCodeGenerator):
    """accepts and ignores arbitrary extra keyword arguments (C19: carries noise strings through argv)"""

    def __init__(self, model, max_literals=10, post_init_converters=False, convert_unicode=True, **ignored):
        super().__init__(model, max_literals=max_literals, post_init_converters=post_init_converters,
                         convert_unicode=convert_unicode)
