"""Shared oracles (DESIGN.md section 4).  Written from the property statements and typing semantics;
none of them calls the function under test to obtain the expected value."""
import ast
import collections
import datetime
import hashlib
import inspect
import re
import typing
from inspect import isclass

from unidecode import unidecode

from . import pipeline as pl
from .pipeline import dt

NoneT = type(None)
Literal = typing.Literal


class MalformedIR(Exception):
    """the IR produced by the code under test contains something that is not an IR node"""


# ---------------------------------------------------------------------------------------------
# acceptors of string pseudo-types: "that type's parser accepts it"

def accepts(cls, s):
    try:
        cls.to_internal_value(s)
        return True
    except (ValueError, OverflowError):
        return False


# ---------------------------------------------------------------------------------------------
# O-INHABIT over IR

def inhabits(v, t):
    if isinstance(t, dt.ModelPtr):
        return isinstance(v, dict) and model_accepts(v, t.type)
    if isinstance(t, dt.ModelMeta):
        return isinstance(v, dict) and model_accepts(v, t)
    if isinstance(t, dict):
        raise MalformedIR("raw dict left in IR")
    if isinstance(t, dt.DOptional):
        return v is None or inhabits(v, t.type)
    if isinstance(t, dt.DUnion):
        return any(inhabits(v, x) for x in t.types)
    if isinstance(t, dt.DList):
        return isinstance(v, list) and all(inhabits(x, t.type) for x in v)
    if isinstance(t, dt.DDict):
        return isinstance(v, dict) and all(inhabits(x, t.type) for x in v.values())
    if isinstance(t, dt.StringLiteral):
        return isinstance(v, str) and (t.overflowed or v in t.literals)
    if t is dt.Null:
        return v is None
    if t is dt.Unknown:
        return True
    if isclass(t):
        if issubclass(t, dt.StringSerializable):
            return isinstance(v, str) and accepts(t, v)
        if t is float:
            return type(v) in (int, float)
        if t is int:
            return type(v) is int
        if t is bool:
            return type(v) is bool
        if t is str:
            return isinstance(v, str)
    raise MalformedIR(f"unknown IR node {t!r}")


def model_accepts(obj, model, why=None):
    fields = model.type
    if not isinstance(fields, dict):
        raise MalformedIR(f"model {model} does not hold a field dict")
    for k, v in obj.items():
        if k not in fields:
            if why is not None:
                why.append(("extra-key", k, str(model)))
            return False
        if not inhabits(v, fields[k]):
            if why is not None:
                why.append(("value", k, v, str(fields[k]), str(model)))
            return False
    for k, t in fields.items():
        if k not in obj and not isinstance(t, dt.DOptional):
            if why is not None:
                why.append(("missing-required", k, str(model)))
            return False
    return True


# ---------------------------------------------------------------------------------------------
# O-NAME

ONES = ['', 'one', 'two', 'three', 'four', 'five', 'six', 'seven', 'eight', 'nine']


def fold(s):
    return re.sub(r"[\W_]", "", unidecode(s)).lower()


def digitword(key, unicode=True):
    lab = re.sub(r"\W", "", unidecode(key) if unicode else key)
    if lab and lab[0] in "123456789":
        return ONES[int(lab[0])] + lab[1:]
    return lab


def fold_plain(s):
    return re.sub(r"[\W_]", "", s).lower()


def name_ok_for_key(name, key):
    """fold(name without trailing underscores) == fold(key with the leading digit spelled out); with or without
    transliteration (without it, non-word characters are dropped and nothing else changes)"""
    n = name.rstrip("_")
    return fold(n) == fold(digitword(key)) or fold_plain(n) == fold_plain(digitword(key, unicode=False))


def module_imported_names(tree):
    names = set()
    for node in ast.walk(tree):
        if isinstance(node, ast.ImportFrom):
            for a in node.names:
                names.add(a.asname or a.name)
        elif isinstance(node, ast.Import):
            for a in node.names:
                names.add((a.asname or a.name).split(".")[0])
    return names


# ---------------------------------------------------------------------------------------------
# field tables of the frameworks

META_KEY = "J2M_ORIGINAL_FIELD"
_MISSING = object()


class FieldInfo:
    __slots__ = ("name", "key", "has_default", "default", "factory", "extra")

    def __repr__(self):
        return f"<{self.name} key={self.key!r} default={self.has_default}>"


def class_fields(cls, fw):
    """python name -> FieldInfo read from the framework's own field table (base: annotations only)"""
    import attr
    import dataclasses as dc
    out = {}
    if fw in ("pydantic", "sqlmodel"):
        for n, f in cls.__fields__.items():
            fi = FieldInfo()
            fi.name, fi.key = n, f.alias
            fi.has_default = not f.required
            fi.default = f.default
            fi.factory = f.default_factory
            fi.extra = dict(getattr(f.field_info, "extra", {}) or {})
            out[n] = fi
    elif fw == "attrs":
        for a in attr.fields(cls):
            fi = FieldInfo()
            fi.name = a.name
            fi.key = a.metadata.get(META_KEY) if META_KEY in a.metadata else None
            fi.has_default = a.default is not attr.NOTHING
            fi.factory = a.default.factory if isinstance(a.default, attr.Factory) else None
            fi.default = None if fi.factory else (a.default if fi.has_default else _MISSING)
            fi.extra = {"converter": a.converter}
            out[a.name] = fi
    elif fw == "dataclasses":
        for a in dc.fields(cls):
            fi = FieldInfo()
            fi.name = a.name
            fi.key = a.metadata.get(META_KEY) if META_KEY in a.metadata else None
            fi.factory = a.default_factory if a.default_factory is not dc.MISSING else None
            fi.has_default = a.default is not dc.MISSING or fi.factory is not None
            fi.default = a.default if a.default is not dc.MISSING else (None if fi.factory else _MISSING)
            fi.extra = {}
            out[a.name] = fi
    else:
        for n in cls.__dict__.get("__annotations__", {}):
            fi = FieldInfo()
            fi.name, fi.key, fi.has_default, fi.default, fi.factory, fi.extra = n, None, False, _MISSING, None, {}
            out[n] = fi
    return out


def field_for_key(fields, key):
    """The unique field that stands for JSON key `key`: by recorded original key, else by O-NAME.
    Returns (FieldInfo | None, n_candidates)."""
    exact = [f for f in fields.values() if f.key is not None and f.key == key]
    if len(exact) == 1:
        return exact[0], 1
    if len(exact) > 1:
        return None, len(exact)
    cands = [f for f in fields.values()
             if (f.key is None or f.key == f.name) and name_ok_for_key(f.name, key)]
    if len(cands) == 1:
        return cands[0], 1
    return None, len(cands)


# ---------------------------------------------------------------------------------------------
# O-INHABIT-PY over evaluated annotations

_PY_PSEUDO = None


def _py_pseudo():
    global _PY_PSEUDO
    if _PY_PSEUDO is None:
        _PY_PSEUDO = {int: pl.IntString, float: pl.FloatString, bool: pl.BooleanString,
                      datetime.date: pl.IsoDateString, datetime.time: pl.IsoTimeString,
                      datetime.datetime: pl.IsoDatetimeString}
    return _PY_PSEUDO


class PyCtx:
    def __init__(self, fw, loaded, coerce):
        self.fw = fw
        self.ld = loaded
        self.classes = {c for c, _, _ in loaded.classes}
        self.coerce = coerce           # pydantic/sqlmodel: actual types admit the strings their pseudo-type accepts
        self.why = []
        self._fields = {}

    def fields(self, cls):
        if cls not in self._fields:
            self._fields[cls] = class_fields(cls, self.fw)
        return self._fields[cls]


def inhabits_py(v, t, ctx):
    if t is typing.Any:
        return True
    if t is NoneT or t is None:
        return v is None
    o = typing.get_origin(t)
    if o is typing.Union:
        return any(inhabits_py(v, a, ctx) for a in typing.get_args(t))
    if o is Literal:
        return isinstance(v, str) and any(type(a) is str and a == v for a in typing.get_args(t))
    if o is list:
        return isinstance(v, list) and all(inhabits_py(x, typing.get_args(t)[0], ctx) for x in v)
    if o is dict:
        a = typing.get_args(t)
        return isinstance(v, dict) and a[0] is str and all(inhabits_py(x, a[1], ctx) for x in v.values())
    if inspect.isclass(t):
        if t in ctx.classes:
            return isinstance(v, dict) and class_accepts(v, t, ctx)
        if issubclass(t, dt.StringSerializable):
            return isinstance(v, str) and accepts(t, v)
        if t is float:
            if type(v) in (int, float):
                return True
        elif t is int:
            if type(v) is int:
                return True
        elif t is bool:
            if type(v) is bool:
                return True
        elif t is str:
            return isinstance(v, str)
        elif t not in (datetime.date, datetime.time, datetime.datetime):
            ctx.why.append(("unknown-annotation", repr(t)))
            return False
        if ctx.coerce and isinstance(v, str) and t in _py_pseudo():
            return accepts(_py_pseudo()[t], v)
        return False
    ctx.why.append(("unknown-annotation", repr(t)))
    return False


def class_accepts(obj, cls, ctx, null_only_keys=None):
    """every key maps to exactly one field, every value lies in the annotation, every field without default present.
    null_only_keys: keys that may be absent from the class (pydantic/sqlmodel drop null-only fields)."""
    fields = ctx.fields(cls)
    hints = ctx.ld.hints[cls]
    used = set()
    for k, v in obj.items():
        f, n = field_for_key(fields, k)
        if f is None:
            if n == 0 and ctx.fw in ("pydantic", "sqlmodel") and v is None:
                # dropped null-only field: allowed, the caller validates that *every* value was null
                if null_only_keys is not None:
                    null_only_keys.add((cls, k))
                continue
            ctx.why.append(("no-unique-field-for-key" if n == 0 else "ambiguous-field-for-key", k, cls.__name__))
            return False
        if f.name in used:
            ctx.why.append(("two-keys-one-field", k, cls.__name__))
            return False
        used.add(f.name)
        if f.name not in hints:
            ctx.why.append(("field-without-annotation", f.name, cls.__name__))
            return False
        if not inhabits_py(v, hints[f.name], ctx):
            ctx.why.append(("value-not-in-annotation", k, v, str(hints[f.name]), cls.__name__))
            return False
    if ctx.fw != "base":
        for f in fields.values():
            if f.name not in used and not f.has_default:
                ctx.why.append(("missing-required", f.name, cls.__name__))
                return False
    return True


# ---------------------------------------------------------------------------------------------
# O-DENOTE: independent rendering of IR to typing objects

def denote(t, fw, max_literals, classes):
    d = lambda x: denote(x, fw, max_literals, classes)  # noqa: E731
    if isinstance(t, dt.ModelPtr):
        return classes[t.type.index]
    if isinstance(t, dt.DOptional):
        return typing.Optional[d(t.type)]
    if isinstance(t, dt.DUnion):
        return typing.Union[tuple(d(x) for x in t.types)]
    if isinstance(t, dt.DList):
        return typing.List[d(t.type)]
    if isinstance(t, dt.DDict):
        return typing.Dict[str, d(t.type)]
    if isinstance(t, dt.StringLiteral):
        if fw == "attrs" or t.overflowed or not t.literals or not (len(t.literals) < max_literals):
            return str
        return Literal[tuple(sorted(t.literals))]
    if t is dt.Null:
        return NoneT
    if t is dt.Unknown:
        return typing.Any
    if isclass(t) and issubclass(t, dt.StringSerializable):
        return t.actual_type if fw in ("pydantic", "sqlmodel") else t
    if isclass(t):
        return t
    raise MalformedIR(f"unknown IR node {t!r}")


def same_typing(a, b):
    """typing equality; Literal compared as sets of (type, value) so that 1 / True / '1' stay distinct"""
    if a == b:
        oa = typing.get_origin(a)
        if oa is Literal:
            return {(type(x), x) for x in typing.get_args(a)} == {(type(x), x) for x in typing.get_args(b)}
        if oa is not None and typing.get_origin(b) is oa:
            aa, bb = typing.get_args(a), typing.get_args(b)
            if oa is typing.Union:
                return len(aa) == len(bb) and all(any(same_typing(x, y) for y in bb) for x in aa)
            return len(aa) == len(bb) and all(same_typing(x, y) for x, y in zip(aa, bb))
        return True
    return False


# ---------------------------------------------------------------------------------------------
# O-CANON: model graph modulo field order, union order, class names

def canon_type(t, sig):
    c = lambda x: canon_type(x, sig)  # noqa: E731
    if isinstance(t, dt.ModelPtr):
        return ("M", sig.get(t.type.index, "?unregistered"))
    if isinstance(t, dt.DOptional):
        return ("O", c(t.type))
    if isinstance(t, dt.DUnion):
        ms = sorted(set(map(c, t.types)), key=repr)
        return ms[0] if len(ms) == 1 else ("U", tuple(ms))
    if isinstance(t, dt.DList):
        return ("L", c(t.type))
    if isinstance(t, dt.DDict):
        return ("D", c(t.type))
    if isinstance(t, dt.DTuple):
        return ("T", tuple(c(x) for x in t.types))
    if isinstance(t, dt.StringLiteral):
        return "str" if t.overflowed else ("Lit", tuple(sorted(t.literals)))
    if t is dt.Null:
        return "None"
    if t is dt.Unknown:
        return "Any"
    if isclass(t):
        return t.__name__
    raise MalformedIR(f"unknown IR node {t!r}")


def canon_graph(models, ptr_map=None):
    """-> (frozenset of class signatures, {index: signature}); bisimulation classes by partition refinement.
    ptr_map: optional {index: index} applied to pointer targets first (C05 retargeting)."""
    models = list(models)
    sig = {m.index: "0" for m in models}
    if ptr_map:
        for k, v in ptr_map.items():
            sig.setdefault(k, "0")

    def one(m, sig):
        return hashlib.md5(repr(tuple(sorted((k, canon_type(v, sig)) for k, v in m.type.items()))).encode()).hexdigest()[:12]

    for _ in range(len(models) + 1):
        new = {m.index: one(m, sig) for m in models}
        if ptr_map:
            for k, v in ptr_map.items():
                if v in new:
                    new[k] = new[v]
        sig = new
    readable = {m.index: repr(tuple(sorted((k, canon_type(v, sig)) for k, v in m.type.items()))) for m in models}
    return frozenset(readable.values()), readable


# ---------------------------------------------------------------------------------------------
# O-NF: normal form over IR and over emitted annotation text

class _IdentitySig(dict):
    """model signature = its own index (two pointers are duplicates only if they target the same model)"""
    def get(self, k, default=None):
        return k


def nf_violations(t, sreg, where="", top=True):
    """list of (clause, where) for a type of an inferred model field"""
    out = []
    c = lambda x, w: out.extend(nf_violations(x, sreg, where + w, top=False))  # noqa: E731
    if isinstance(t, dict):
        out.append(("raw-dict-in-type", where))
    elif isinstance(t, dt.ModelPtr):
        pass
    elif isinstance(t, dt.DOptional):
        if isinstance(t.type, dt.DOptional):
            out.append(("optional-in-optional", where))
        c(t.type, "?")
    elif isinstance(t, dt.DUnion):
        ms = list(t.types)
        if len(ms) == 0:
            out.append(("empty-union", where))
        if len(ms) == 1:
            out.append(("single-member-union", where))
        canon = [repr(canon_type(m, _IdentitySig())) if not isinstance(m, dict) else "dict%d" % i for i, m in enumerate(ms)]
        if len(set(canon)) != len(canon):
            out.append(("duplicate-union-member", where))
        if any(isinstance(m, dt.DUnion) for m in ms):
            out.append(("nested-union", where))
        if any(m is dt.Null for m in ms):
            out.append(("null-in-union", where))
        if any(isinstance(m, dt.DOptional) for m in ms):
            out.append(("optional-in-union", where))
        if any(m is dt.Unknown for m in ms):
            out.append(("any-in-union", where))
        if int in ms and float in ms:
            out.append(("int-next-to-float", where))
        strish = [m for m in ms if isinstance(m, dt.StringLiteral) or (isclass(m) and issubclass(m, dt.StringSerializable))]
        if str in ms and strish:
            out.append(("str-next-to-literal-or-pseudo", where))
        for i, m in enumerate(ms):
            c(m, "|%d" % i)
    elif isinstance(t, dt.DList):
        c(t.type, "[]")
    elif isinstance(t, dt.DDict):
        c(t.type, "{}")
    elif isinstance(t, dt.DTuple):
        for i, m in enumerate(t.types):
            c(m, "(%d)" % i)
    elif isinstance(t, dt.StringLiteral):
        if t.overflowed:
            out.append(("overflowed-literal-left", where))
        elif not t.literals:
            out.append(("empty-literal-left", where))
    elif t is dt.Null or t is dt.Unknown:
        pass
    elif isclass(t):
        pass
    else:
        out.append(("unknown-node", where))
    return out


def _ann_name(node):
    if isinstance(node, ast.Name):
        return node.id
    if isinstance(node, ast.Attribute):
        return node.attr
    return None


def annotation_nf_violations(node):
    """normal-form clauses over the AST of an emitted annotation (typing would silently flatten at runtime)"""
    out = []
    if isinstance(node, ast.Subscript):
        head = _ann_name(node.value)
        sl = node.slice
        args = list(sl.elts) if isinstance(sl, ast.Tuple) else [sl]
        if head == "Union":
            if len(args) < 2:
                out.append("single-member-union")
            heads = [(_ann_name(a.value) if isinstance(a, ast.Subscript) else None) for a in args]
            if "Union" in heads:
                out.append("nested-union")
            if "Optional" in heads:
                out.append("optional-in-union")
            dumps = [ast.dump(a) for a in args]
            if len(set(dumps)) != len(dumps):
                out.append("duplicate-union-member")
            names = [_ann_name(a) for a in args]
            if any(isinstance(a, ast.Constant) and a.value is None for a in args):
                out.append("null-in-union")
            if "int" in names and "float" in names:
                out.append("int-next-to-float")
            if "str" in names and ("Literal" in heads or any(n and n.endswith("String") for n in names)):
                out.append("str-next-to-literal-or-pseudo")
            if heads.count("List") > 1:
                out.append("two-list-members")
            if heads.count("Dict") > 1:
                out.append("two-dict-members")
        elif head == "Optional":
            a = args[0]
            if isinstance(a, ast.Subscript) and _ann_name(a.value) == "Optional":
                out.append("optional-in-optional")
        if head != "Literal":
            for a in args:
                out.extend(annotation_nf_violations(a))
    return out


# ---------------------------------------------------------------------------------------------
# O-STRREF: reference classification of the strings seen at one position

def detect_ref(s, sreg_names):
    for n in sreg_names:
        if accepts(pl.PSEUDO[n], s):
            return n
    return None


def strref(strings, sreg_names):
    """-> expected canonical string component: set of 'str' | pseudo name | ('Lit', tuple)"""
    S = list(strings)
    if not S:
        return set()
    det = {s: detect_ref(s, sreg_names) for s in set(S)}
    P = {d for d in det.values() if d is not None}
    plain = {s for s, d in det.items() if d is None}
    out = set()
    pseudo = None
    if P:
        R = set(P)
        if "IntString" in R and "FloatString" in R:
            R.discard("IntString")
        pseudo = next(iter(R)) if len(R) == 1 else "str"
        out.add(pseudo)
    if plain:
        if pseudo == "str" or len(plain) > 15 or any(len(s) >= 20 for s in plain):
            return {"str"}
        out.add(("Lit", tuple(sorted(plain))))
    if pseudo == "str":
        return {"str"}
    return out


def canon_str_member(t):
    if t is str:
        return "str"
    if isinstance(t, dt.StringLiteral):
        return "str" if t.overflowed else ("Lit", tuple(sorted(t.literals)))
    if isclass(t) and issubclass(t, dt.StringSerializable):
        return t.__name__
    return None


# ---------------------------------------------------------------------------------------------
# O-WITNESS: route sample values through the final graph

class Routing:
    """Values routed to every (model, field) and below; over-approximating at unions.
    tainted[(pos)] is True when some value arrived through an ambiguous object-shaped routing point."""

    def __init__(self, reg, roots_samples):
        self.models = {m.index: m for m in reg.models}
        self.fieldvals = collections.defaultdict(list)      # (model index, key) -> [(value, tainted)]
        self.absent = collections.defaultdict(int)          # (model index, key) -> objects lacking it
        self.objects = collections.defaultdict(list)        # model index -> [(obj, tainted)]
        self.unsound = False
        seen = set()
        queue = []
        for model, samples in roots_samples:
            for s in samples:
                queue.append((model, s, False))
        while queue:
            m, o, taint = queue.pop()
            key = (m.index, id(o), taint)
            if key in seen:
                continue
            seen.add(key)
            self.objects[m.index].append((o, taint))
            if not isinstance(o, dict):
                self.unsound = True
                continue
            for k, t in m.type.items():
                if k in o:
                    self.fieldvals[(m.index, k)].append((o[k], taint))
                    for mi, obj, tn in self.route(o[k], t, taint):
                        if mi in self.models:
                            queue.append((self.models[mi], obj, tn))
                else:
                    self.absent[(m.index, k)] += 1
            for k in o:
                if k not in m.type:
                    self.unsound = True

    def route(self, v, t, taint):
        """yield (model index, object, tainted) for objects reaching model pointers below t"""
        if isinstance(t, dt.ModelPtr):
            if isinstance(v, dict):
                yield (t.type.index, v, taint)
            else:
                self.unsound = True
            return
        if isinstance(t, dt.DOptional):
            if v is not None:
                yield from self.route(v, t.type, taint)
            return
        if isinstance(t, dt.DUnion):
            ms = [x for x in t.types if inhabits(v, x)]
            if not ms:
                self.unsound = True
            objish = [x for x in ms if isinstance(x, (dt.ModelPtr, dt.DDict))]
            tn = taint or len(objish) > 1
            for x in ms:
                yield from self.route(v, x, tn)
            return
        if isinstance(t, dt.DList):
            if isinstance(v, list):
                for x in v:
                    yield from self.route(x, t.type, taint)
            else:
                self.unsound = True
            return
        if isinstance(t, dt.DDict):
            if isinstance(v, dict):
                for x in v.values():
                    yield from self.route(x, t.type, taint)
            else:
                self.unsound = True
            return


def specific_kind(v):
    if v is None:
        return "null"
    if type(v) is bool:
        return "bool"
    if type(v) is int:
        return "int"
    if type(v) is float:
        return "float"
    if isinstance(v, str):
        return "str"
    if isinstance(v, list):
        return "list"
    if isinstance(v, dict):
        return "dict"
    return "?"


def tightness_violations(routing, reg, sreg_names, exact_strings=True):
    """O-WITNESS clauses + O-STRREF at untainted positions. -> (list of (clause, detail), stats)

    Routing over-approximates (an object goes to every admitting member), so a clause can miss a loose type but
    cannot alarm on a tight one.  vals are (value, tainted) pairs; nulls included."""
    viol = []
    stats = collections.Counter()

    def vs(vals):
        return short([v for v, _ in vals])

    def member_witness(x, vals):
        """does some value's most specific classification equal member x"""
        if isinstance(x, (dt.ModelPtr, dt.DList, dt.DDict)):
            return any(inhabits(v, x) for v, _ in vals)
        if isinstance(x, dt.StringLiteral):
            return any(isinstance(v, str) and inhabits(v, x) for v, _ in vals)
        if x is float:
            return any(type(v) is float for v, _ in vals)
        if x is int:
            return any(type(v) is int for v, _ in vals)
        if x is bool:
            return any(type(v) is bool for v, _ in vals)
        if x is str:
            return any(isinstance(v, str) for v, _ in vals)
        if x is dt.Null:
            return any(v is None for v, _ in vals)
        if isclass(x) and issubclass(x, dt.StringSerializable):
            return any(isinstance(v, str) and detect_ref(v, sreg_names) == x.__name__ for v, _ in vals)
        return True

    def chk(t, vals, where):
        if isinstance(t, dt.DOptional):
            if not any(v is None for v, _ in vals):
                viol.append(("inner-optional-without-null", f"{where}: {t}; values={vs(vals)}"))
            chk(t.type, [(v, tn) for v, tn in vals if v is not None], where + "?")
            return
        members = list(t.types) if isinstance(t, dt.DUnion) else [t]
        string_component(members, vals, where)
        for x in members:
            if x is dt.Unknown:
                viol.append(("any-outside-container", f"{where}: {t}"))
                continue
            if len(members) > 1 or not isinstance(x, (dt.DList, dt.DDict, dt.ModelPtr)):
                if not member_witness(x, vals):
                    clause = "union-member-without-witness" if len(members) > 1 else "type-without-witness"
                    viol.append((clause, f"{where}: {x} in {t}; values={vs(vals)}"))
            if isinstance(x, (dt.DList, dt.DDict)):
                islist = isinstance(x, dt.DList)
                w = where + ("[]" if islist else "{}")
                if islist:
                    conts = [(v, tn) for v, tn in vals if isinstance(v, list)]
                else:
                    # a dict value may belong to a model member instead; below an ambiguous point values are tainted
                    conts = []
                    for v, tn in vals:
                        if isinstance(v, dict) and inhabits(v, x):
                            amb = sum(1 for y in members if isinstance(y, (dt.ModelPtr, dt.DDict)) and inhabits(v, y)) > 1
                            conts.append((v, tn or amb))
                els = [(e, tn) for v, tn in conts for e in (v if islist else v.values())]
                if x.type is dt.Unknown:
                    stats["any-element-positions"] += 1
                    if not any(all(e is None for e in (v if islist else v.values())) for v, _ in conts):
                        viol.append(("any-without-empty-container", f"{w}: values={vs(vals)}"))
                else:
                    if not els:
                        viol.append(("element-type-without-witness", f"{w}: {x}; values={vs(vals)}"))
                    else:
                        chk(x.type, els, w)
            elif isinstance(x, dt.StringLiteral) and not x.overflowed:
                extra = set(x.literals) - {v for v, _ in vals if isinstance(v, str)}
                if extra:
                    viol.append(("literal-not-observed", f"{where}: {sorted(extra)}; values={vs(vals)}"))

    def string_component(members, vals, where):
        if not exact_strings:
            return
        S = [v for v, _ in vals if isinstance(v, str)]
        got = {canon_str_member(x) for x in members} - {None}
        if not S and not got:
            return
        if any(tn for _, tn in vals):
            stats["tainted-positions"] += 1
            return
        exp = strref(S, sreg_names)
        stats["strref-positions"] += 1
        if got != exp:
            viol.append(("string-component-mismatch",
                         f"{where}: got={sorted(map(repr, got))} expected={sorted(map(repr, exp))} strings={short(S)}"))

    for m in reg.models:
        if not routing.objects.get(m.index):
            stats["orphan-models"] += 1
            continue
        for k, t in m.type.items():
            vals = routing.fieldvals.get((m.index, k), [])
            where = f"{m.name or m.index}.{k}"
            if isinstance(t, dt.DOptional):
                if not routing.absent.get((m.index, k)) and not any(v is None for v, _ in vals):
                    viol.append(("optional-without-witness", f"{where}: {t}; values={vs(vals)}"))
                t = t.type
                vals = [(v, tn) for v, tn in vals if v is not None]
                if not vals:
                    # only ever null/missing: nothing can witness the inner type
                    if t is not dt.Null and not isinstance(t, (dt.DOptional,)):
                        viol.append(("field-type-without-witness", f"{where}: Optional[{t}] but no non-null value"))
                    continue
            elif not vals:
                viol.append(("field-without-witness", f"{where}: {t}"))
                continue
            chk(t, vals, where)
    return viol, stats


def short(x, n=200):
    s = repr(x)
    return s if len(s) <= n else s[:n] + "..."
