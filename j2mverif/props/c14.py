"""C14 — a generation is independent of what the process did before."""
import contextlib
import io
import json
import os
import sys
import tempfile

from hypothesis import strategies as st

from .. import gen, pipeline as pl, subproc
from ..core import R, exc_sig, input_labels
from . import c01

ID = "C14"
LEVEL = "exploration"
RULE = ("Hypothesis draws a history: 1-3 inputs (C01's generator incl. the 'sub-model shared by two nested models' shape), 1-2 option "
        "sets and a list of 2-4 (thorough: up to 8) operation records over <= 3 live registries: generate(input, options), "
        "render(registry, framework, layout, literal/converter/meta options), render_model (the public per-class API "
        "<Generator>(model).generate() outside generate_code), names (generate_names() called again on a live registry), render_failing (a harness subclass of the code "
        "generator that raises inside field_data after k calls, i.e. inside the reference-context block; nested layout allowed on "
        "any graph because its output is never compared), cli (in-process CLI run with --datetime / "
        "--disable-str-serializable-types that perturbs the process-global string registry) and garbage. Operands are indices "
        "into the state as it exists at that step, so every history is executable. Model-based oracle: every render result must "
        "be byte-equal to what a separate child interpreter, which only ever performs single generate+render calls from fresh "
        "registries, returns for the same samples and options; an exception on one side only is a violation. unicode option is "
        "fixed per registry; nested layout for tree-shaped and other acyclic graphs (shared models, dotted references). Non-trivial: a compared render happens after another "
        "framework/layout on the same registry, after a failing render, or after a CLI run. distinct = canonical JSON of the history.")
ASSUMPTIONS = ["the reference child has a history of its own (only clean single calls); a state leak common to both sides and "
               "independent of history would not show", "CLI-after-CLI in one process is not compared (global registry is a CLI concern)"]
_state = {}


def setup(tier, shard):
    _state["tier"] = tier


def ref_child():
    return subproc.children(["0"])[0]


RENDER_OPTS = st.fixed_dictionaries({
    "fw": st.sampled_from(gen.FRAMEWORKS), "nested": st.booleans(),
    "max_literals": st.sampled_from([10, 0, 2]), "pic": st.booleans(), "meta": st.booleans(),
    # explicit types_style overrides of the documented kind (None = generator defaults)
    "style": st.sampled_from([None, None, None, "no-actual-type", "no-literals", "actual-type", "int-no-actual-type"])})


@st.composite
def cases(draw, tier="quick"):
    universe = draw(gen.key_universe([gen.PLAIN_KEYS, ["Root", "Item", "Tag", "List", "field", "DriverStandings", "MRData", "é", "naïve"]],
                                     min_size=3, max_size=7))
    if draw(st.integers(0, 5)) == 0:
        # a class name that is special to one framework only (pydantic's nested Config); rendered flat for pydantic/sqlmodel
        universe = universe + [draw(st.sampled_from(["config", "configs", "Config"]))]
    ninputs = draw(st.integers(1, 3))
    inputs = [draw(st.one_of(gen.shared_child_samples(universe), gen.sample_lists(universe, max_samples=3, max_leaves=7)))
              for _ in range(ninputs)]
    optsets = []
    for _ in range(draw(st.integers(1, 2))):
        o = draw(gen.option_sets(universe, frameworks=["base"]))
        os_ = {k: o[k] for k in ("merge", "sreg", "dkr", "dkf", "unicode")}
        # the user-given name of the root model; some change under class-name conversion
        os_["root_name"] = draw(st.sampled_from(["Root", "Root", "Café", "Größe", "My-Model", "list", "two words"]))
        optsets.append(os_)
    nops = draw(st.integers(2, 4 if tier == "quick" else 8))
    ops = [["generate", 0, 0]]
    if draw(st.integers(0, 4)) == 0:
        # scenario: an in-process CLI run that changes the process-global string registry, then a generation with an
        # explicitly passed registry, then its render
        ops.append(["cli", draw(st.sampled_from([["--disable-str-serializable-types", "float"], ["--disable-str-serializable-types", "int", "bool"],
                                                  ["--datetime", "--disable-str-serializable-types", "float", "date"]]))])
        ops.append(["generate", draw(st.integers(0, ninputs - 1)), draw(st.integers(0, len(optsets) - 1))])
        ops.append(["render", len(ops) % 3 if False else 1, draw(RENDER_OPTS)])
        nops = max(0, nops - 2)
    if draw(st.integers(0, 2)) == 0:
        # scenario: a render that fails inside the reference-context block, then a compared render of the same registry
        fo = draw(RENDER_OPTS)
        fo["nested"] = True
        ops.append(["render_failing", 0, fo, draw(st.integers(0, 5))])
        ops.append(draw(st.sampled_from(["render", "render_model"])) == "render" and ["render", 0, draw(RENDER_OPTS)]
                   or ["render_model", 0, draw(RENDER_OPTS), draw(st.integers(0, 5))])
        nops = max(0, nops - 2)
    for _ in range(nops):
        kind = draw(st.sampled_from(["render", "render", "render", "render_model", "render_model", "generate", "names", "render_failing", "render_failing", "cli", "garbage"]))
        if kind == "generate":
            ops.append(["generate", draw(st.integers(0, ninputs - 1)), draw(st.integers(0, len(optsets) - 1))])
        elif kind == "render":
            ops.append(["render", draw(st.integers(0, 2)), draw(RENDER_OPTS)])
        elif kind == "render_failing":
            ops.append(["render_failing", draw(st.integers(0, 2)), draw(RENDER_OPTS), draw(st.integers(0, 6))])
        elif kind == "render_model":
            ops.append(["render_model", draw(st.integers(0, 2)), draw(RENDER_OPTS), draw(st.integers(0, 5))])
        elif kind == "names":
            ops.append(["names", draw(st.integers(0, 2))])
        elif kind == "cli":
            ops.append(["cli", draw(st.sampled_from([["--datetime"], ["--disable-str-serializable-types", "int"],
                                                      ["--datetime", "--disable-str-serializable-types", "float", "date"],
                                                      ["--disable-str-serializable-types", "bool", "IntString"], []]))])
        else:
            ops.append(["garbage", draw(st.integers(100, 5000))])
    ops.append(["render", draw(st.integers(0, 2)), draw(RENDER_OPTS)])
    return {"inputs": inputs, "optsets": optsets, "ops": ops}


def valid(case):
    try:
        if not case["inputs"] or not case["optsets"] or not case["ops"]:
            return False
        for s in case["inputs"]:
            for o in case["optsets"]:
                oo = dict(o, fw="base")
                rn = oo.pop("root_name", "Root")
                if not isinstance(rn, str) or not rn or rn != rn.strip() or not any(c.isalpha() for c in rn[:1]):
                    return False
                if not c01.valid({"samples": _without_config(s), "opts": oo}):
                    return False
        if case["ops"][0][0] != "generate":
            return False
        for op in case["ops"]:
            k = op[0]
            if k == "generate":
                if not (0 <= op[1] < len(case["inputs"]) and 0 <= op[2] < len(case["optsets"])):
                    return False
            elif k in ("render", "render_failing", "render_model"):
                if not (isinstance(op[1], int) and 0 <= op[1] <= 2 and op[2].get("fw") in pl.FRAMEWORKS and c01.opts_valid(op[2])
                        and op[2].get("style") in (None, "no-actual-type", "no-literals", "actual-type", "int-no-actual-type")):
                    return False
                if k == "render_model" and not (len(op) == 4 and isinstance(op[3], int) and 0 <= op[3] <= 50):
                    return False
                if k == "render_failing" and not (isinstance(op[3], int) and 0 <= op[3] <= 50):
                    return False
            elif k == "names":
                if not (isinstance(op[1], int) and 0 <= op[1] <= 2):
                    return False
            elif k == "cli":
                if not all(isinstance(x, str) for x in op[1]):
                    return False
            elif k == "garbage":
                if not (isinstance(op[1], int) and 0 <= op[1] <= 100000):
                    return False
            else:
                return False
        return True
    except Exception:  # noqa: BLE001
        return False


def _without_config(v):
    """the key 'config' is admitted here although it is framework-reserved elsewhere (rendered flat for pydantic)"""
    if isinstance(v, dict):
        return {("cfg" if gen.fold(k) == "config" else "cfgs" if gen.fold(k) == "configs" else k): _without_config(x) for k, x in v.items()}
    if isinstance(v, list):
        return [_without_config(x) for x in v]
    return v


def failing_generator(base, k):
    class Failing(base):
        calls = [0]

        def field_data(self, name, meta, optional):
            Failing.calls[0] += 1
            if Failing.calls[0] > k:
                raise RuntimeError("injected failure inside code generation")
            return super().field_data(name, meta, optional)

    return Failing


def run_cli_in_process(extra_args):
    from json_to_models.cli import Cli
    with tempfile.TemporaryDirectory(prefix="j2mv_c14_") as d:
        path = os.path.join(d, "d.json")
        with open(path, "w") as f:
            json.dump([{"a": "1", "b": "2018-01-02", "c": "true"}], f)
        argv = ["-m", "M", path] + list(extra_args)
        old = sys.argv
        sys.argv = ["json2models"] + argv
        try:
            with contextlib.redirect_stderr(io.StringIO()):
                cli = Cli()
                cli.parse_args(argv)
                cli.run()
        finally:
            sys.argv = old


def check(case):
    r = R()
    inputs, optsets = case["inputs"], case["optsets"]
    for s in inputs:
        r.label(*input_labels(s))
    regs = []          # [dict(b=Built, samples=, opts=, rendered=[(fw,nested)], failed=bool)]
    after_cli = False
    keep = []
    from ..findings import pydantic_stricter_datetime  # noqa: F401  (import keeps module graph identical across runs)
    from json_to_models.dynamic_typing import registry as global_registry
    g_types, g_repl = list(global_registry.types), set(global_registry.replaces)
    try:
        for step, op in enumerate(case["ops"]):
            kind = op[0]
            if kind == "generate":
                samples, o = inputs[op[1]], pl.norm_opts(optsets[op[2]])
                root_name = o.pop("root_name", "Root")
                try:
                    b = pl.build(samples, o, name=root_name)
                except Exception as e:  # noqa: BLE001
                    r.skip = "pipeline-error:%s@%s" % exc_sig(e)
                    return r
                from ..findings import all_keys
                ent = dict(b=b, samples=samples, opts=o, name=root_name, rendered=[], failed=False, tree=pl.is_tree(b.reg) or pl.is_acyclic(b.reg),
                           has_config=any(gen.fold(k) in ("config", "configs") for s in samples for k in all_keys(s)))
                if len(regs) < 3:
                    regs.append(ent)
                else:
                    regs[step % 3] = ent
            elif kind in ("render", "render_failing", "render_model"):
                ent = regs[op[1] % len(regs)]
                ro = dict(ent["opts"], **op[2])
                if kind == "render_model":
                    ro["nested"] = False
                    r.counters["compared-single-class-renders"] += 1
                    if ent["failed"] or after_cli or ent["rendered"]:
                        r.nontrivial = True
                    if ent["failed"]:
                        r.label("single-class-render-after-failing-render")
                    try:
                        got = ("ok", pl.render_single_model(ent["b"].reg, ro, op[3]))
                    except Exception as e:  # noqa: BLE001
                        got = ("exc", exc_sig(e)[0])
                    ent["rendered"].append((ro["fw"], "single"))
                    resp = ref_child().ask({"op": "render_model", "samples": ent["samples"], "opts": ro, "index": op[3], "name": ent["name"]})
                    exp = ("ok", resp["text"]) if resp["ok"] else ("exc", resp["exc"][0])
                    if got != exp:
                        prev = [o2[0] for o2 in case["ops"][:step]]
                        r.fail("single-class-render-differs-from-fresh" if got[0] == exp[0] == "ok" else "exception-on-one-side",
                               f"step {step} {op} after {prev}:\n{got[1]}\n--- fresh:\n{exp[1]}")
                        return r
                    continue
                if kind == "render_failing":
                    nested = bool(ro["nested"])
                    genc = failing_generator(pl.GENS[ro["fw"]], op[3])
                    try:
                        st_ = pl.structure(ent["b"].reg, nested)
                        if st_[1]:
                            r.label("op:failing-render-with-nonempty-context")
                        pl.generate_code(st_, genc, class_generator_kwargs=pl.gen_kwargs(ro))
                    except Exception:  # noqa: BLE001 - failing is the point; the output is never compared
                        ent["failed"] = True
                        r.label("op:failing-render-raised")
                    continue
                nested = bool(ro["nested"] and ent["tree"])
                if ro["fw"] in ("pydantic", "sqlmodel") and ent.get("has_config"):
                    nested = False
                ro["nested"] = nested
                r.counters["compared-renders"] += 1
                if ent["failed"] or after_cli or any(x != (ro["fw"], nested) for x in ent["rendered"]):
                    r.nontrivial = True
                if ent["failed"]:
                    r.label("render-after-failing-render")
                if after_cli:
                    r.label("render-after-cli")
                if ent["rendered"]:
                    r.label("re-render-of-registry")
                try:
                    got = ("ok", pl.render(ent["b"].reg, ro))
                except RecursionError:
                    got = ("exc", "RecursionError")
                except Exception as e:  # noqa: BLE001
                    got = ("exc", exc_sig(e)[0])
                ent["rendered"].append((ro["fw"], nested))
                resp = ref_child().ask({"op": "render", "samples": ent["samples"], "opts": ro, "name": ent["name"], "force_nested": nested})
                exp = ("ok", resp["text"]) if resp["ok"] else ("exc", resp["exc"][0])
                if got[0] != exp[0]:
                    r.fail("exception-on-one-side", f"step {step} {op}: history {got[0]} {got[1] if got[0] == 'exc' else ''}, fresh {exp[0]} {exp[1] if exp[0] == 'exc' else ''}")
                    return r
                if got[0] == "ok" and got[1] != exp[1]:
                    prev = [o2[0] for o2 in case["ops"][:step]]
                    r.fail("render-differs-from-fresh", f"step {step} {op} after {prev}:\n{got[1]}\n--- fresh:\n{exp[1]}")
                    return r
            elif kind == "names":
                # the documented pipeline step, called again on a registry that may already have been rendered
                ent = regs[op[1] % len(regs)]
                try:
                    ent["b"].reg.generate_names()
                    r.label("op:generate_names-again")
                except Exception as e:  # noqa: BLE001
                    r.fail("generate-names-again:" + type(e).__name__, str(e))
                    return r
            elif kind == "cli":
                try:
                    run_cli_in_process(op[1])
                except BaseException:  # noqa: BLE001
                    pass
                after_cli = True
            elif kind == "garbage":
                keep.append([object() for _ in range(op[1])])
    finally:
        # harness hygiene: cases must not influence each other through state a broken tree may leak
        try:
            from json_to_models.dynamic_typing import AbsoluteModelRef
            AbsoluteModelRef.Context.data.context = None
        except Exception:  # noqa: BLE001
            pass
        global_registry.types[:] = g_types
        global_registry.replaces.clear()
        global_registry.replaces.update(g_repl)
    return r


def teardown():
    subproc.close_all()


def phases(tier):
    q = tier == "quick"
    return [dict(name="main", kind="hypothesis", strategy=cases(tier), check=check, examples=(16 * 250 if q else 16 * 4000),
                 setup=setup, teardown=teardown)]
