"""C12 — flat and nested layouts describe the same models."""
import ast
import inspect
import typing

from hypothesis import strategies as st

from .. import gen, oracle, codeview, pipeline as pl
from ..core import R, unowned, input_labels
from ..pipeline import dt
from . import c01

ID = "C12"
LEVEL = "exploration"
RULE = ("Hypothesis: C01's sample generator (plain ASCII keys; sibling/recursive/shared-child boosters) x 5 frameworks x merge policies "
        "x converter/meta/literal options. Every case is rendered flat; cases whose final graph is tree-shaped are also rendered "
        "nested from a second, independently built registry. Differential oracle between the two loaded modules: same set of "
        "class names; per class the same field names, evaluated annotations (own classes compared by name) and defaults (framework "
        "field tables); every nested class is an attribute of exactly the class whose model references it and only the root is at "
        "module level. Flat (all graphs): one class per registered model and the first class statement is the root model. "
        "Non-trivial: >= 3 models with nesting depth >= 2, or a model referenced through a List/Dict/Union (measured on the "
        "result, reported not enforced). distinct = canonical JSON of (samples, options).")
ASSUMPTIONS = ["non-tree graphs are outside the nested claim (only flat completeness is checked for them)",
               "load failures are C03's business (skipped, counted)"]
FLOORS = {"similar-objects": 0.1}


def ann_repr(t, own):
    if t is typing.Any:
        return "Any"
    if t is None or t is type(None):
        return "None"
    o = typing.get_origin(t)
    if o is typing.Union:
        return "Union[" + ",".join(sorted(ann_repr(a, own) for a in typing.get_args(t))) + "]"
    if o is typing.Literal:
        return "Literal[" + ",".join(sorted(repr(a) for a in typing.get_args(t))) + "]"
    if o is not None:
        return getattr(o, "__name__", str(o)) + "[" + ",".join(ann_repr(a, own) for a in typing.get_args(t)) + "]"
    if inspect.isclass(t):
        return ("own:" if t in own else "") + t.__name__
    return repr(t)


def table(v):
    """class name -> {field name: (annotation repr, has_default, default repr, factory repr)}"""
    own = {c for c, _, _ in v.ld.classes}
    out = {}
    for cls, encl, path in v.ld.classes:
        fields = oracle.class_fields(cls, v.fw)
        hints = v.ld.hints[cls]
        row = {}
        for n in cls.__dict__.get("__annotations__", {}):
            f = fields.get(n)
            row[n] = (ann_repr(hints.get(n), own),
                      f.has_default if f else None,
                      repr(f.default) if f and f.has_default and f.factory is None else None,
                      getattr(f.factory, "__name__", None) if f else None,
                      f.key if f else None)
        out[cls.__name__] = row
    return out


def references(reg):
    """model index -> set of owner model indexes referencing it from a field"""
    refs = {}
    for owner in reg.models:
        for t in owner.type.values():
            for p in pl.iter_ptrs(t):
                refs.setdefault(p.type.index, set()).add(owner.index)
    return refs


def check(case):
    r = R()
    samples, opts = case["samples"], pl.norm_opts(case["opts"])
    r.label(*input_labels(samples))
    fw = opts["fw"]
    r.label("fw:" + fw)
    extra = [tuple(x) for x in case.get("extra_models", [])]
    if extra:
        r.label("several-root-models")
    ok, b1 = unowned(r, pl.build, samples, opts, "Root", extra)
    if not ok:
        return r
    tree = pl.is_tree(b1.reg)
    r.label("graph:tree" if tree else "graph:not-tree")
    nmodels = len(list(b1.reg.models))
    ok, src_flat = unowned(r, pl.render, b1.reg, dict(opts, nested=False))
    if not ok:
        return r
    vf = codeview.load_view(r, b1, opts, src_flat, False, own=False)
    if vf is None:
        if r.skip == "load-problem:class-count" or r.skip == "load-problem:class-for-model":
            r.skip = None
            r.fail("flat:not-one-class-per-model", src_flat)
        return r
    # flat: first class statement is the root model, everything at module level
    root = b1.roots[0].type
    first = next((n for n in vf.tree.body if isinstance(n, ast.ClassDef)), None)
    if tree and not extra and (first is None or first.name != root.name):
        r.fail("flat:root-not-first", f"first class {getattr(first, 'name', None)!r}, root {root.name!r}\n{src_flat}")
    if tree and extra:
        # a forest: every root model is listed before every non-root model
        root_names = {m.name for m in pl.root_models(b1.reg)}
        order = [n.name for n in vf.tree.body if isinstance(n, ast.ClassDef)]
        seen_non_root = None
        for n in order:
            if n in root_names:
                if seen_non_root is not None:
                    r.fail("flat:root-after-non-root", f"root {n!r} is listed after non-root {seen_non_root!r}: {order}\n{src_flat}")
                    break
            elif seen_non_root is None:
                seen_non_root = n
    if any(encl for _, encl, _ in vf.ld.classes):
        r.fail("flat:nested-class-in-flat-layout", src_flat)
    if not tree:
        r.nontrivial = nmodels >= 3
        return r
    # nested from an independent registry
    ok, b2 = unowned(r, pl.build, samples, opts, "Root", extra)
    if not ok:
        return r
    ok, src_nested = unowned(r, pl.render, b2.reg, dict(opts, nested=True))
    if not ok:
        # the nested layout raising on a tree-shaped graph is a failure of this property
        r.fail("nested:render-" + (r.skip or "error"), src_flat)
        r.skip = None
        return r
    vn = codeview.load_view(r, b2, opts, src_nested, True, own=False)
    if vn is None:
        if r.skip in ("load-problem:class-count", "load-problem:class-for-model"):
            r.skip = None
            r.fail("nested:not-one-class-per-model", f"{src_nested}\n--- flat ---\n{src_flat}")
        elif r.skip and r.skip.startswith("load-problem:"):
            # the flat module of the same models loaded fine: the two layouts do not describe the same thing
            clause = r.skip[len("load-problem:"):]
            r.skip = None
            r.fail("nested:does-not-load-while-flat-does:" + clause, f"{src_nested}\n--- flat ---\n{src_flat}")
        return r
    tf, tn = table(vf), table(vn)
    if set(tf) != set(tn):
        r.fail("class-sets-differ", f"flat only: {sorted(set(tf) - set(tn))}; nested only: {sorted(set(tn) - set(tf))}\n{src_nested}\n--- flat ---\n{src_flat}")
        return r
    for cname in tf:
        if set(tf[cname]) != set(tn[cname]):
            r.fail("field-sets-differ", f"{cname}: flat {sorted(tf[cname])} nested {sorted(tn[cname])}\n{src_nested}\n--- flat ---\n{src_flat}")
            continue
        for fname in tf[cname]:
            a, b = tf[cname][fname], tn[cname][fname]
            if a[0] != b[0]:
                r.fail("annotations-differ", f"{cname}.{fname}: flat {a[0]} nested {b[0]}\n{src_nested}\n--- flat ---\n{src_flat}")
            elif a[1:] != b[1:]:
                r.fail("defaults-differ", f"{cname}.{fname}: flat {a[1:]} nested {b[1:]}\n{src_nested}\n--- flat ---\n{src_flat}")
    # placement
    refs = references(b2.reg)
    depth = 0
    for cls, encl, path in vn.ld.classes:
        m = vn.model_of[cls]
        depth = max(depth, len(encl))
        owners = refs.get(m.index, set())
        if not owners:
            if encl:
                r.fail("nested:root-not-at-module-level", f"{path}\n{src_nested}")
        else:
            owner_cls = vn.cls_of[next(iter(owners))]
            if not encl or encl[-1] is not owner_cls:
                r.fail("nested:class-not-inside-its-referencing-class", f"{path}, expected inside {owner_cls.__name__}\n{src_nested}")
    through_container = any(isinstance(t, (dt.DList, dt.DDict, dt.DUnion)) or (isinstance(t, dt.DOptional) and isinstance(t.type, (dt.DList, dt.DDict, dt.DUnion)))
                            for m in b2.reg.models for t in m.type.values() if any(True for _ in pl.iter_ptrs(t)))
    r.nontrivial = (nmodels >= 3 and depth >= 2) or through_container
    if depth >= 2:
        r.label("nesting-depth>=2")
    return r


@st.composite
def cases(draw, tier="quick"):
    universe = draw(gen.key_universe(gen.ASCII_KEY_POOLS + [["field", "list", "größe", "Optional", "naïve", "class", "ID", "e-mail"]],
                                     min_size=2, max_size=7))
    big = tier == "thorough"
    deep = gen.values(universe, max_leaves=14 if big else 10, obj_max=3)
    nested_objs = st.lists(st.dictionaries(st.sampled_from(universe), deep, min_size=1, max_size=4), min_size=1, max_size=3)
    samples = draw(st.one_of(gen.sample_lists(universe, max_samples=4), nested_objs, nested_objs))
    opts = draw(gen.option_sets(universe))
    opts["merge"] = draw(st.one_of(st.just([["exact"]]), st.just([["percent", 100]]), st.just([["number", 10]]), st.just([["number", 10]]),
                                   gen.merge_policies()))
    case = {"samples": samples, "opts": opts}
    if draw(st.integers(0, 3)) == 0:
        # further root models over key universes of their own (suffix), so that the forest stays a forest
        from .c15 import rename
        extra = []
        for i, name in enumerate(draw(st.lists(st.sampled_from(["Alpha", "Beta", "Gamma"]), min_size=1, max_size=3, unique=True))):
            smp = draw(st.one_of(nested_objs, gen.sample_lists(universe, max_samples=2, max_leaves=6)))
            extra.append([name, rename(smp, "_r%d" % i)])
        case["extra_models"] = extra
    return case


def valid(case):
    for item in case.get("extra_models", []):
        if not (isinstance(item, list) and len(item) == 2 and isinstance(item[0], str) and item[0].isidentifier()
                and c01.valid({"samples": item[1], "opts": case["opts"]})):
            return False
    return c01.valid({"samples": case["samples"], "opts": case["opts"]})


def phases(tier):
    n = {"quick": 16 * 1000, "thorough": 16 * 15000}[tier]
    return [dict(name="main", kind="hypothesis", strategy=cases(tier), check=check, examples=n)]
