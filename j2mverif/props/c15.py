"""C15 — generation works from any thread and concurrent runs do not interfere."""
import sys
import threading

from hypothesis import strategies as st

from .. import gen, pipeline as pl
from ..pipeline import dt
from ..core import R, exc_sig
from ..sched import Sched
from . import c01

ID = "C15"
LEVEL = "exploration"
RULE = ("Hypothesis draws 1-4 (controlled) or 2-8 (stress) independent pipelines (generate + merge + names + render; inputs from C01's "
        "shapes incl. the 'sub-model shared by two nested models under one root' shape whose nested layout has a non-empty "
        "absolute-reference context; mixed frameworks and layouts) whose key universes are made pairwise disjoint by a per-pipeline "
        "key suffix, and a schedule. mode 'single': one pipeline in a fresh worker thread; mode 'single_class': the per-class rendering API (<Generator>(model).generate() "
        "for every model) in a fresh worker thread that never entered generate_code. mode 'controlled': the harness owns the "
        "schedule - worker threads run under sys.settrace and park at every call/return event of a json_to_models function; the "
        "controller resumes the thread named by the next schedule element (a list of small ints, then round-robin). mode 'stress': "
        "threads released by a barrier under sys.setswitchinterval(1e-6); phase 'first-use': the same, but in a fresh child interpreter "
        "whose very first use of the library are these concurrent pipelines (lazy initialisation raced). Pipelines differ in "
        "decorator kwargs, registries (own / process-wide default / full), merge policies; a quarter are whole command lines "
        "(Cli().parse_args(); run(), optionally -o FILE), in some cases all with --datetime. Oracle: every pipeline's text equals its text when run "
        "alone in the main thread; an exception in a thread that the solo run does not raise is a violation. Non-trivial (measured "
        "by the scheduler, reported not enforced): >= 2 threads were inside generate_code at the same step and some pipeline had a "
        "non-empty reference context; for 'single': the pipeline has a non-empty context or >= 2 models. "
        "distinct = canonical JSON of (pipelines, schedule, mode).")
ASSUMPTIONS = ["yield points are Python-level call/return events; a race inside one C call or between bytecodes of one function "
               "is only reachable in stress mode", "liveness is not claimed; a scheduler step that blocks for 20 s aborts the case "
               "(counted as skipped)"]


def rename(v, suffix):
    if isinstance(v, dict):
        return {k + suffix: rename(x, suffix) for k, x in v.items()}
    if isinstance(v, list):
        return [rename(x, suffix) for x in v]
    return v


@st.composite
def pipeline_specs(draw, i):
    universe = draw(gen.key_universe([gen.PLAIN_KEYS[:14]], min_size=3, max_size=5))
    samples = draw(st.one_of(gen.shared_child_samples(universe), gen.shared_child_samples(universe),
                             gen.sample_lists(universe, max_samples=2, max_leaves=5)))
    opts = {"fw": draw(st.sampled_from(gen.FRAMEWORKS)), "nested": draw(st.sampled_from([True, True, False])),
            "meta": draw(st.booleans()), "pic": draw(st.booleans()), "max_literals": draw(st.sampled_from([0, 10, 16, 2])),
            "unicode": draw(st.sampled_from([True, True, False])),
            "sreg": draw(st.sampled_from([list(pl.DEFAULT_SREG), list(pl.DEFAULT_SREG), list(pl.FULL_SREG)])),
            # ordinary library use: no registry passed, all pipelines share the process-wide default registry
            "default_registry": draw(st.sampled_from([False, True])),
            "merge": draw(st.sampled_from([None, None, [["exact"]], [["percent", 50]], [["number", 2]]])),
            # documented generator option: keyword arguments of the @attr.s / @dataclass decorator (differ between pipelines)
            "deco_kwargs": draw(st.sampled_from([None, None, {"slots": True}, {"frozen": True}, {"eq": False},
                                                 {"frozen": True, "slots": True}, {"order": True}]))}
    # a field whose strings are of different pseudo-types (resolution of pseudo-types runs for it)
    mix = draw(st.sampled_from([["1", "2.5"], ["true", "7"], ["1", "2"], ["2018-01-02", "12:30"], ["x", "1.5", "3"], ["false", "true"],
                                # time strings that the date parser accepts only with a warning (unknown time zone names)
                                ["10:30 EST", "11:45 PST"], ["10:30 EST", "12:30"]]))
    samples = list(samples) + [{"mix": mix}, {"mix": list(reversed(mix))}]
    return {"samples": rename(samples, "_p%d" % i), "opts": opts, "kind": draw(st.sampled_from(["library", "library", "library", "cli"])),
            "cli_output": draw(st.booleans())}


@st.composite
def cases(draw, tier="quick", mode=None):
    mode = mode or draw(st.sampled_from(["controlled", "controlled", "single", "single_class"]))
    n = 1 if mode in ("single", "single_class") else draw(st.integers(2, 4 if mode == "controlled" else 8))
    pipes = [draw(pipeline_specs(i)) for i in range(n)]
    if draw(st.booleans()):
        # all pipelines of the case use the process-wide default registry (the ordinary way to call the library)
        for p in pipes:
            p["opts"]["default_registry"] = True
    cli_datetime = False
    if mode in ("controlled", "stress") and draw(st.integers(0, 5)) == 0:
        # every pipeline is a command-line run with --datetime: all of them register the date/time classes in the process-wide
        # registry (so they agree about what the shared state should be) and infer date/time fields of different sizes
        cli_datetime = True
        for i, p in enumerate(pipes):
            p["kind"] = "cli"
            extra = [{"when_p%d" % i: "2018-01-02", "at_p%d" % i: "12:30", "ts_p%d" % i: "2018-01-02T12:30:00"}]
            p["samples"] = list(p["samples"]) + extra * draw(st.sampled_from([1, 1, 4, 12]))
    if mode == "stress" and not cli_datetime and draw(st.integers(0, 5)) == 0:
        # one pipeline converts a very deep document after raising the recursion limit for it; the others are ordinary
        pipes[-1]["kind"] = "library"
        pipes[-1]["deep"] = draw(st.sampled_from([1100, 1200, 1500]))
    schedule = draw(st.lists(st.integers(0, 7), max_size=300)) if mode == "controlled" else []
    # threads may legitimately share a name (e.g. a pool that names all its workers alike)
    return {"mode": mode, "pipelines": pipes, "schedule": schedule, "same_thread_names": draw(st.sampled_from([False, False, True])),
            "cli_datetime": cli_datetime}


def valid(case):
    try:
        if case["mode"] not in ("single", "single_class", "controlled", "stress", "first_use") or not case["pipelines"]:
            return False
        if not all(isinstance(x, int) and 0 <= x < 64 for x in case["schedule"]):
            return False
        if not isinstance(case.get("same_thread_names", False), bool) or not isinstance(case.get("cli_datetime", False), bool):
            return False
        keysets = []
        from ..findings import all_keys
        for p in case["pipelines"]:
            po = dict(p["opts"])
            dk = po.pop("deco_kwargs", None)
            if dk is not None and not (isinstance(dk, dict) and all(k in ("slots", "frozen", "eq", "order") and isinstance(v, bool) for k, v in dk.items())):
                return False
            if not isinstance(po.pop("default_registry", False), bool) or p.get("kind", "library") not in ("library", "cli"):
                return False
            if p.get("deep") is not None and not (isinstance(p["deep"], int) and 0 <= p["deep"] <= 2000 and p.get("kind", "library") == "library"):
                return False
            if not c01.valid({"samples": p["samples"], "opts": po}):
                return False
            keysets.append(set(k for s in p["samples"] for k in all_keys(s)))
        for i in range(len(keysets)):
            for j in range(i + 1, len(keysets)):
                if keysets[i] & keysets[j]:
                    return False
        return True
    except Exception:  # noqa: BLE001
        return False


def cli_argv(spec, path, datetime_=False):
    from .. import cliargs
    o = pl.norm_opts(spec["opts"])
    o["sreg"] = list(pl.FULL_SREG if datetime_ else pl.DEFAULT_SREG)
    return ["-m", "Root", path] + cliargs.option_args(o)


def job(spec, path=None, datetime_=False):
    if spec.get("kind") == "cli" and path:
        # a whole command-line pipeline: its own Cli object, parse_args + run (the header echoes process-wide argv: ignored)
        def run_cli():
            from json_to_models.cli import Cli
            from .c16 import split_header
            cli = Cli()
            argv = cli_argv(spec, path, datetime_)
            if spec.get("cli_output"):
                # -o FILE: the command writes the module itself (also from a thread that is not the main thread)
                out = path + ".out.py"
                cli.parse_args(argv + ["-o", out])
                cli.run()
                with open(out, encoding="utf-8") as f:
                    return split_header(f.read())[1]
            cli.parse_args(argv)
            return split_header(cli.run())[1]
        return run_cli

    def run():
        samples = spec["samples"]
        if spec.get("deep"):
            # a document nested deeper than the default recursion limit allows: its owner raises the (process-wide) limit first,
            # the usual advice for deep JSON
            sys.setrecursionlimit(max(sys.getrecursionlimit(), 3000))
            samples = list(samples) + [{"deep_doc": deep_list(spec["deep"])}]
        b = pl.build(samples, spec["opts"])
        return pl.render(b.reg, pl.norm_opts(spec["opts"]))
    return run


def deep_list(n):
    d = 1
    for _ in range(n):
        d = [d]
    return d


def solo(spec, path=None, datetime_=False):
    if spec.get("kind") == "cli" and path:
        try:
            return ("ok", job(spec, path, datetime_)()), False, 1
        except BaseException as e:  # noqa: BLE001
            return ("exc", type(e).__name__, str(e)[:200]), False, 0
    try:
        if spec.get("deep"):
            return ("ok", job(spec)()), False, 2
        b = pl.build(spec["samples"], spec["opts"])
        o = pl.norm_opts(spec["opts"])
        ctx = False
        try:
            ctx = bool(pl.structure(b.reg, o["nested"])[1])
        except Exception:  # noqa: BLE001
            pass
        b2 = pl.build(spec["samples"], spec["opts"])
        return ("ok", pl.render(b2.reg, o)), ctx, len(list(b.reg.models))
    except Exception as e:  # noqa: BLE001
        return ("exc", type(e).__name__, str(e)[:200]), False, 0


def check(case):
    if any(p.get("deep") for p in case["pipelines"]):
        limit = sys.getrecursionlimit()
        try:
            return _check(case)
        finally:
            sys.setrecursionlimit(limit)
    if not case.get("cli_datetime"):
        return _check(case)
    # --datetime commands change the process-wide registry for good (documented); the worker process serves other cases
    # afterwards, so the harness puts the registry back
    types, replaces = list(dt.registry.types), set(dt.registry.replaces)
    try:
        return _check(case)
    finally:
        dt.registry.types[:] = types
        dt.registry.replaces.clear()
        dt.registry.replaces.update(replaces)


def _check(case):
    r = R()
    specs = case["pipelines"]
    mode = case["mode"]
    r.label("mode:" + mode, "threads:%d" % len(specs))
    import json
    import tempfile
    tmp = tempfile.TemporaryDirectory(prefix="j2mv_c15_")
    paths = []
    for i, s in enumerate(specs):
        pth = None
        if s.get("kind") == "cli" and mode in ("controlled", "stress"):
            pth = "%s/p%d.json" % (tmp.name, i)
            with open(pth, "w", encoding="utf-8") as f:
                json.dump(s["samples"], f)
            r.label("pipeline:cli")
        paths.append(pth)
    if any(s["opts"].get("default_registry") for s in specs):
        r.label("pipeline:default-registry")
    cdt = bool(case.get("cli_datetime"))
    if cdt:
        r.label("pipeline:cli-with-datetime")
    solos = [solo(s, p, cdt) for s, p in zip(specs, paths)]
    any_ctx = any(c for _, c, _ in solos)
    if any_ctx:
        r.label("pipeline-with-nonempty-reference-context")
    jobs = [job(s, p, cdt) for s, p in zip(specs, paths)]
    if mode == "single_class":
        # the per-class rendering API, from a fresh thread that has never been inside generate_code
        def one():
            b = pl.build(specs[0]["samples"], specs[0]["opts"])
            return "\n".join(pl.render_single_model(b.reg, specs[0]["opts"], i) for i in range(len(list(b.reg.models))))
        try:
            exp1 = ("ok", one())
        except Exception as e:  # noqa: BLE001
            exp1 = ("exc", type(e).__name__, str(e)[:200])
        solos = [(exp1, solos[0][1], solos[0][2])]
        jobs = [one]
    if mode in ("single", "single_class"):
        res = [None]

        def w():
            try:
                res[0] = ("ok", jobs[0]())
            except BaseException as e:  # noqa: BLE001
                res[0] = ("exc", type(e).__name__, str(e)[:200])
        t = threading.Thread(target=w)
        t.start()
        t.join()
        results = res
        r.nontrivial = any_ctx or solos[0][2] >= 2
    elif mode == "controlled":
        sc = Sched(jobs, case["schedule"], thread_name="worker" if case.get("same_thread_names") else None)
        results = sc.run()
        if sc.aborted:
            r.skip = "scheduler-aborted"
            return r
        r.counters["scheduler-steps"] += sc.steps
        r.counters["overlap-steps"] += sc.overlap_steps
        r.nontrivial = sc.overlap_steps > 0 and any_ctx
        if sc.overlap_steps > 0:
            r.label("threads-overlap-in-generate_code")
    else:
        results = [None] * len(jobs)
        barrier = threading.Barrier(len(jobs))

        def w(i):
            try:
                barrier.wait()
                results[i] = ("ok", jobs[i]())
            except BaseException as e:  # noqa: BLE001
                results[i] = ("exc", type(e).__name__, str(e)[:200])
        old = sys.getswitchinterval()
        sys.setswitchinterval(1e-6)
        try:
            kw = {"name": "worker"} if case.get("same_thread_names") else {}
            ts = [threading.Thread(target=w, args=(i,), **kw) for i in range(len(jobs))]
            for t in ts:
                t.start()
            for t in ts:
                t.join()
        finally:
            sys.setswitchinterval(old)
        r.nontrivial = any_ctx and len(jobs) >= 2
    tmp.cleanup()
    for i, (got, (exp, _, _)) in enumerate(zip(results, solos)):
        if got is None:
            r.fail("thread-did-not-finish", f"pipeline {i}")
        elif got[0] == "exc" and exp[0] == "exc":
            if got[1] != exp[1]:
                r.fail("exception-type-differs-in-thread", f"pipeline {i}: thread {got[1:]}, alone {exp[1:]}")
        elif got[0] == "exc":
            r.fail("exception-only-in-thread:" + got[1], f"pipeline {i} ({mode}, {len(specs)} threads): {got[2]}")
        elif exp[0] == "exc":
            r.fail("exception-only-when-alone", f"pipeline {i}: {exp[1:]}")
        elif got[1] != exp[1]:
            r.fail("output-differs-from-solo-run", f"pipeline {i} of {len(specs)} ({mode}):\n{got[1]}\n--- alone in the main thread:\n{exp[1]}")
    return r


def check_first_use(case):
    """the same comparison, but the threads run in a fresh interpreter that has not generated or rendered anything before:
    whatever the library initialises lazily is initialised by several threads at once"""
    import json
    import subprocess
    from ..env import child_env, VERIF
    r = R()
    specs = case["pipelines"]
    r.label("mode:first-use", "threads:%d" % len(specs))
    solos = [solo(s) for s in specs]
    r.nontrivial = len(specs) >= 2
    try:
        p = subprocess.run([sys.executable, "-m", "j2mverif.firstuse"], input=json.dumps({"pipelines": specs}), capture_output=True,
                           text=True, encoding="utf-8", env=child_env("0"), cwd=VERIF, timeout=120)
        results = json.loads(p.stdout)
    except Exception as e:  # noqa: BLE001
        r.skip = "first-use-child-failed:" + type(e).__name__
        return r
    for i, (got, (exp, _, _)) in enumerate(zip(results, solos)):
        if got is None:
            r.fail("thread-did-not-finish", f"pipeline {i}")
        elif got[0] == "exc" and exp[0] == "exc":
            if got[1] != exp[1]:
                r.fail("exception-type-differs-in-thread", f"pipeline {i}: thread {got[1:]}, alone {exp[1:]}")
        elif got[0] == "exc":
            r.fail("exception-only-in-thread:" + got[1], f"pipeline {i} (first use, {len(specs)} threads): {got[2]}")
        elif exp[0] == "exc":
            r.fail("exception-only-alone", f"pipeline {i}: alone {exp[1:]}")
        elif got[1] != exp[1]:
            r.fail("output-differs-from-solo-run", f"pipeline {i} of {len(specs)} (first use in a fresh interpreter):\n{got[1]}\n--- alone:\n{exp[1]}")
    return r


@st.composite
def first_use_cases(draw, tier="quick"):
    n = draw(st.integers(2, 6))
    pipes = [draw(pipeline_specs(i)) for i in range(n)]
    for p in pipes:
        p["kind"] = "library"
        p["opts"]["default_registry"] = draw(st.booleans())
    return {"mode": "first_use", "pipelines": pipes, "schedule": []}


def phases(tier):
    q = tier == "quick"
    return [dict(name="first-use", kind="hypothesis", strategy=first_use_cases(tier), check=check_first_use, examples=(16 * 4 if q else 16 * 40)),
            dict(name="controlled", kind="hypothesis", strategy=cases(tier), check=check, examples=(16 * 60 if q else 16 * 600)),
            dict(name="stress", kind="hypothesis", strategy=cases(tier, mode="stress"), check=check, examples=(16 * 100 if q else 16 * 1500))]
