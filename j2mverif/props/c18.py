"""C18 — generated attrs/dataclass models construct from their samples and convert."""
import math
from inspect import isclass

from hypothesis import strategies as st

from .. import gen, oracle, codeview, pipeline as pl
from ..core import R, unowned
from ..pipeline import dt

ID = "C18"
LEVEL = "exploration"
RULE = ("Hypothesis: 1-4 fields, each with a string pseudo-type (int/float/bool/date/time/datetime strings) at a nesting path over "
        "{Optional, List, Dict} up to depth 3 (S, O.S, L.S, D.S, O.L.S, L.O.S, D.L.S, L.D.S, O.L.L.S, ...), values drawn per sample "
        "with nulls at Optional levels, empty containers at List/Dict levels, missing keys for top-level Optional, mixed pseudo-types "
        "(unions) and generic JSON noise fields (nested objects stay dicts) x {attrs, dataclasses} x converters on/off x default / "
        "datetime registries x meta. Oracle: Root(**{field: value}) never raises for any sample; for every field whose inferred type is "
        "a pure Optional/List/Dict path ending in a pseudo-type T the constructed attribute, walked in parallel with the sample, has "
        "type(leaf) is T and leaf == T.to_internal_value(original) at every leaf (NaN equal to itself), None where the sample had null "
        "and containers of the same shape (converters on; with converters off under attrs only directly / optionally typed IntString "
        "and FloatString fields); every other attribute equals the sample value with the same type. Non-trivial: a pseudo-type below "
        ">= 1 wrapper, or an optional pseudo-typed field that is null/missing in some sample. In a quarter of the cases a second root model over the same keys is merged "
        "into the first (the class constructs from the samples of both); in another quarter the model is a nested class of the nested "
        "layout; transliteration on / off. distinct = canonical JSON of the case.")
ASSUMPTIONS = ["attrs with converters off and boolean/date-like strings is a listed known finding (excluded from the construct clause by "
               "predicate, replayed)", "load failures are C03's business (skipped, counted)"]
FLOORS = {"wrapped-pseudo-type": 0.25}

POOLS = {
    "IntString": ["1", "-7", "42", "007", " 12 ", "0"],
    "FloatString": ["1.5", "2e3", "-0.25", "nan", "inf", "3.0", "1_0.5"],
    "BooleanString": ["true", "False", "TRUE", "false"],
    "IsoDateString": ["2018-01-02", "1999-12-31", "2024-02-29"],
    "IsoTimeString": ["12:30", "12:30:45.123", "23:59:59"],
    "IsoDatetimeString": ["2018-01-02T03:04:05", "2018-01-02T03:04:05Z", "2018-01-02T03:04:05.678+01:00"],
}
PATHS = ["S", "S", "O.S", "O.S", "L.S", "D.S", "O.L.S", "O.D.S", "L.L.S", "L.D.S", "D.L.S", "D.D.S", "L.O.S", "D.O.S",
         "O.L.L.S", "O.L.D.S", "O.D.L.S", "L.L.L.S", "L.O.L.S", "D.O.L.S", "O.L.O.S"]


@st.composite
def value_for(draw, path, pool):
    tok, rest = path[0], path[1:]
    if tok == "S":
        return draw(st.sampled_from(pool))
    if tok == "O":
        if draw(st.integers(0, 2)) == 0:
            return None
        return draw(value_for(rest, pool))
    if tok == "L":
        return [draw(value_for(rest, pool)) for _ in range(draw(st.integers(0, 3)))]
    if tok == "D":
        return {"n_%d" % i: draw(value_for(rest, pool)) for i in range(draw(st.integers(0, 3)))}
    raise ValueError(tok)


@st.composite
def cases(draw, tier="quick"):
    full = draw(st.booleans())
    names = list(POOLS) if full else list(POOLS)[:3]
    nfields = draw(st.integers(1, 4))
    specs = []
    for i in range(nfields):
        t = draw(st.sampled_from(names))
        path = draw(st.sampled_from(PATHS)).split(".")
        mix = draw(st.integers(0, 9)) == 0
        key = draw(st.sampled_from([["f0", "userId", "class"], ["count", "2ndScore", "Item-Count"], ["value", "isOK", "type"],
                                    ["item_s", "créé", "max"]][i]))
        specs.append((key, t, path, mix))
    nsamples = draw(st.integers(1, 4))
    samples = []
    noise_keys = ["note", "meta_info", "extra"]
    noise = gen.values(["a", "b"], max_leaves=5)
    for _ in range(nsamples):
        s = {}
        for key, t, path, mix in specs:
            if path[0] == "O" and draw(st.integers(0, 3)) == 0:
                continue
            pool = POOLS[t] + (POOLS[draw(st.sampled_from(names))] + ["plain"] if mix else [])
            s[key] = draw(value_for(path, pool))
        for nk in noise_keys:
            if draw(st.integers(0, 2)) == 0:
                s[nk] = draw(noise)
        samples.append(s)
    opts = {"fw": draw(st.sampled_from(["attrs", "dataclasses"])), "pic": draw(st.sampled_from([True, True, False])),
            "sreg": list(names), "meta": draw(st.booleans()), "dkr": [r"n_\d+"], "dkf": [],
            "max_literals": draw(st.sampled_from([10, 0])), "nested": False, "slots": draw(st.sampled_from([False, False, True])),
            "unicode": draw(st.sampled_from([True, True, False]))}
    case = {"samples": samples, "opts": opts}
    if draw(st.integers(0, 3)) == 0:
        # a second root model over the same keys (other pseudo-types of the same family, null / missing at optional places):
        # the two models are merged into one class, which has to construct from the samples of both
        related = {"IntString": ["IntString", "FloatString"], "FloatString": ["FloatString", "IntString"]}
        other = []
        for _ in range(draw(st.integers(1, 3))):
            s = {}
            for key, t, path, mix in specs:
                t2 = draw(st.sampled_from(related.get(t, [t])))
                if draw(st.integers(0, 2)) == 0 and path[0] != "O":
                    path = ["O"] + list(path)
                if path[0] == "O" and draw(st.integers(0, 3)) == 0:
                    continue
                s[key] = draw(value_for(path, POOLS[t2]))
            for nk in noise_keys:
                if nk in samples[0]:
                    s[nk] = samples[0][nk]          # same incidental keys, so that the key sets are similar enough to merge
            other.append(s)
        if any(other):
            case["other"] = other
    elif draw(st.integers(0, 3)) == 0:
        case["inner"] = True
    return case


def valid(case):
    from . import c01
    try:
        if "other" in case and not c01.valid({"samples": case["other"], "opts": case["opts"]}):
            return False
        return c01.valid(case) and case["opts"].get("fw") in ("attrs", "dataclasses")
    except Exception:  # noqa: BLE001
        return False


def pure_path(t):
    """IR type -> (tokens, pseudo class) if it is a pure O/L/D path ending in a pseudo-type, else None"""
    toks = []
    while True:
        if isinstance(t, dt.DOptional):
            toks.append("O")
            t = t.type
        elif isinstance(t, dt.DList):
            toks.append("L")
            t = t.type
        elif isinstance(t, dt.DDict):
            toks.append("D")
            t = t.type
        elif isclass(t) and issubclass(t, dt.StringSerializable):
            return toks, t
        else:
            return None


def same_leaf(got, T, original):
    if type(got) is not T:
        return False
    exp = T.to_internal_value(original)
    if isinstance(exp, float) and math.isnan(exp):
        return isinstance(got, float) and math.isnan(got)
    return got == exp


def compare_converted(got, sample, toks, T, where, out):
    if not toks:
        if not isinstance(sample, str):
            out.append((where, "sample leaf is not a string"))
        elif not same_leaf(got, T, sample):
            out.append((where, f"leaf {got!r} ({type(got).__name__}) for original {sample!r}, expected {T.__name__}"))
        return
    tok, rest = toks[0], toks[1:]
    if tok == "O":
        if sample is None:
            if got is not None:
                out.append((where, f"None expected, got {got!r}"))
            return
        compare_converted(got, sample, rest, T, where, out)
    elif tok == "L":
        if not isinstance(got, list) or not isinstance(sample, list) or len(got) != len(sample):
            out.append((where, f"list shape differs: {got!r} vs {sample!r}"))
            return
        for i, (g, s) in enumerate(zip(got, sample)):
            compare_converted(g, s, rest, T, f"{where}[{i}]", out)
    elif tok == "D":
        if not isinstance(got, dict) or not isinstance(sample, dict) or list(got) != list(sample):
            out.append((where, f"dict shape differs: {got!r} vs {sample!r}"))
            return
        for k in sample:
            compare_converted(got[k], sample[k], rest, T, f"{where}[{k!r}]", out)


def deep_same(a, b):
    if type(a) is not type(b):
        return False
    if isinstance(a, list):
        return len(a) == len(b) and all(deep_same(x, y) for x, y in zip(a, b))
    if isinstance(a, dict):
        return list(a) == list(b) and all(deep_same(a[k], b[k]) for k in a)
    if isinstance(a, float) and math.isnan(a):
        return math.isnan(b)
    return a == b


def check(case):
    r = R()
    samples, opts = case["samples"], pl.norm_opts(case["opts"])
    fw, pic = opts["fw"], opts["pic"]
    r.label("fw:" + fw, "converters:" + ("on" if pic else "off"))
    other = case.get("other")
    if case.get("inner"):
        # the model sits below the root and the nested layout is rendered: the class that has to construct and convert is a
        # nested class (generated with the same generator options as top-level ones)
        r.label("nested-class")
        wrapped = [{"inner_obj": s, "seq": i} for i, s in enumerate(samples)]
        opts = dict(opts, nested=True)
        ok, b = unowned(r, pl.build, wrapped, opts)
        if not ok:
            return r
        t = b.roots[0].type.type.get("inner_obj")
        if not isinstance(t, dt.ModelPtr) or not pl.is_tree(b.reg):
            r.skip = "inner-object-not-a-nested-model"
            return r
        ok, src = unowned(r, pl.render, b.reg, opts)
        if not ok:
            return r
        v = codeview.load_view(r, b, opts, src, True, own=False)
        if v is None:
            return r
        check_root(r, v, t.type, samples, fw, pic, src)
        return r
    ok, b = unowned(r, pl.build, samples, opts, "Root", [("Other", other)] if other else None)
    if not ok:
        return r
    ok, src = unowned(r, pl.render, b.reg, opts)
    if not ok:
        return r
    v = codeview.load_view(r, b, opts, src, False, own=False)
    if v is None:
        return r
    check_root(r, v, b.roots[0].type, samples, fw, pic, src)
    if other and not r.viol and not r.skip:
        if b.roots[1].type is b.roots[0].type:
            r.label("second-root-merged-into-first")
        check_root(r, v, b.roots[1].type, other, fw, pic, src)
    return r


def check_root(r, v, root, samples, fw, pic, src):
    cls = v.cls_of[root.index]
    fields = oracle.class_fields(cls, fw)
    plan = {}
    k4 = False
    for key, t in root.type.items():
        f, n = oracle.field_for_key(fields, key)
        if f is None:
            r.skip = "no-unique-field-for-key"
            return r
        pp = pure_path(t)
        plan[key] = (f.name, pp)
        if pp:
            toks, T = pp
            if toks and toks != ["O"]:
                r.label("wrapped-pseudo-type")
                r.nontrivial = True
            if toks == ["O"] and any(s.get(key) is None for s in samples):
                r.nontrivial = True
                r.label("optional-pseudo-null-or-missing")
            if fw == "attrs" and not pic and toks in ([], ["O"]) and T not in (pl.IntString, pl.FloatString):
                k4 = True
        else:
            if any(True for x in (t.iter_child() if isinstance(t, dt.BaseType) else [t])
                   if isclass(x) and issubclass(x, dt.StringSerializable)):
                r.label("pseudo-type-in-union(ignored)")
    for i, s in enumerate(samples):
        kwargs = {plan[k][0]: val for k, val in s.items()}
        import copy
        given = copy.deepcopy(kwargs)
        try:
            obj = cls(**given)
            # the same values once more: construction must not have consumed or rewritten what it was given
            obj_again = cls(**given)
        except Exception as e:  # noqa: BLE001
            if k4:
                r.fail("construct-raises[attrs-field-converter]", f"sample {i}: {type(e).__name__}: {e}\n{src}")
            else:
                r.fail("construct-raises:" + type(e).__name__, f"sample {i} {oracle.short(s)}: {type(e).__name__}: {e}\n{src}")
            return r
        if not deep_same(given, kwargs):
            r.fail("constructor-rewrites-its-arguments", f"sample {i}: passed {oracle.short(kwargs)}, afterwards {oracle.short(given)}\n{src}")
        for key, val in s.items():
            fname, pp = plan[key]
            got = getattr(obj, fname)
            convert = False
            if pp:
                toks, T = pp
                if pic:
                    convert = True
                elif fw == "attrs" and toks in ([], ["O"]) and T in (pl.IntString, pl.FloatString):
                    convert = True
                elif fw == "attrs" and toks in ([], ["O"]):
                    continue        # known finding territory (boolean/date-like per-field converter): nothing claimed
            if convert:
                out = []
                compare_converted(got, val, toks, T, fname, out)
                if out:
                    r.fail("conversion-wrong", f"sample {i}: {out[0]}\n{src}")
            else:
                if not deep_same(got, val):
                    r.fail("untouched-field-changed", f"sample {i}: {fname}: got {got!r}, sample {val!r}\n{src}")
    return r


def phases(tier):
    n = {"quick": 16 * 1500, "thorough": 16 * 20000}[tier]
    return [dict(name="main", kind="hypothesis", strategy=cases(tier), check=check, examples=n)]
