"""C10 — Literal annotations follow the documented limits and hold exact values."""
import typing

from hypothesis import strategies as st

from .. import gen, oracle, codeview, pipeline as pl
from ..core import R, unowned

ID = "C10"
LEVEL = "exploration"
RULE = ("Hypothesis: a set of 0-17 strings over an alphabet with double/single quote, backslash, newline, tab, comma, braces, "
        "percent, non-ASCII and astral characters, lengths 0-22 dense at 18-21, optionally one pseudo-typed or over-long string, "
        "optionally with samples lacking the field at drawn places (optional position), "
        "spread over 1-4 samples at a scalar / list-element / dict-value position x max_literals 0..16 x 5 frameworks x default / "
        "full string registry; plus the full grid (count 0..17) x (max 0..16) x 5 frameworks with fixed short strings "
        "(1530 cases, enumerated completely in both tiers). Reference: independent classification of the observed strings "
        "(pseudo part, plain part; Literal iff every plain string < 20 chars, <= 15 distinct, nothing generalised to str) and "
        "rendering rule (Literal iff count < max and framework != attrs, else str). Oracle: the evaluated annotation of the loaded "
        "class equals the expected typing object, Literal members compared as exact strings; with max 0 or attrs the token "
        "Literal does not occur in the module. Non-trivial: the set is within 2 of a limit (length 18-21, 14-16 distinct, count in "
        "max-1..max+1) or contains a character that needs escaping. distinct = canonical JSON of the case.")
ASSUMPTIONS = ["pseudo-type acceptors are the types' own parsers", "load failures are C03's business (skipped, counted)"]
EXHAUSTIVE = {"quick": False, "thorough": False}
EXHAUSTIVE_NOTE = "phase 'grid' enumerates (count 0..17) x (max 0..16) x 5 frameworks completely in both tiers"
FLOORS = {"near-limit": 0.3, "needs-escaping": 0.3}

ALPHABET = ['"', "\\", "\n", ",", "\t", "'", "é", "ß", "Ж", "😀", "𝔘", " ", "a", "b", "c", "x", "y", "{", "}", "%", "$", "#", "\r",
            " ", "\x7f", "`", "/", "-", "\u2029", "\x85", "\x0c", "\x1c"]
ESCAPING = set('"\\\n\t\'\r \x7f') | {"😀", "𝔘", "é", "ß", "Ж"}


@st.composite
def cases(draw, tier="quick"):
    lens = st.one_of(st.integers(0, 8), st.sampled_from([18, 19, 19, 20, 20, 21, 22]))
    one = lens.flatmap(lambda n: st.text(alphabet=st.sampled_from(ALPHABET), min_size=n, max_size=n))
    count = draw(st.one_of(st.integers(0, 17), st.sampled_from([14, 15, 16, 9, 10, 11])))
    short = st.text(alphabet=st.sampled_from(ALPHABET), min_size=0, max_size=6)
    strings = draw(st.lists(st.one_of(short, short, one) if count > 6 else one, min_size=count, max_size=count, unique=True))
    admix = draw(st.sampled_from([None, None, None, "1", "1.5", "true", "2018-01-02", "x" * 20, "x" * 25]))
    if admix is not None:
        strings = strings + [admix]
        if draw(st.integers(0, 5)) == 0:
            strings.append(draw(st.sampled_from(["7", "false", "12:30"])))
    nsamples = draw(st.integers(1, 4))
    position = draw(st.sampled_from(["scalar", "list", "dict"]))
    if position == "scalar":
        nsamples = max(1, len(strings))
    # distribute: every string at least once
    assign = [draw(st.integers(0, nsamples - 1)) for _ in strings]
    dup = draw(st.sampled_from([0, 0, 1, 2, 8, 15]))
    opts = {"fw": draw(st.sampled_from(gen.FRAMEWORKS)),
            "max_literals": draw(st.one_of(st.integers(0, 16), st.sampled_from([len(strings), len(strings) + 1, max(0, len(strings) - 1)]))),
            "sreg": draw(st.sampled_from([list(pl.DEFAULT_SREG), list(pl.FULL_SREG), []])),
            "nested": False, "meta": draw(st.booleans()), "pic": False}
    opts["max_literals"] = min(16, opts["max_literals"])
    if draw(st.integers(0, 7)) == 0:
        # strings whose comma-join is itself an observed string, in different containers (hash-collision shape)
        ts = draw(st.lists(st.text(alphabet="abxy ", min_size=0, max_size=3), min_size=2, max_size=3, unique=True))
        strings = ts + [",".join(ts)]
        if len(set(strings)) == len(strings):
            return {"strings": strings, "assign": [0] * len(ts) + [1], "nsamples": 2, "position": draw(st.sampled_from(["list", "dict"])),
                    "dup": False, "opts": opts}
    absent = draw(st.sampled_from([[], [], [0], [1], [0, 2]])) if strings else []
    return {"strings": strings, "assign": assign, "nsamples": nsamples, "position": position, "dup": dup, "opts": opts,
            "inner": draw(st.sampled_from([False, False, True])), "second_position": draw(st.sampled_from([False, True])),
            "absent": absent}


def grid_cases(tier):
    out = []
    for count in range(0, 18):
        for mx in range(0, 17):
            for fw in gen.FRAMEWORKS:
                out.append({"strings": ["s%02d" % i for i in range(count)], "assign": [i % 3 for i in range(count)], "nsamples": 3,
                            "position": "list", "dup": False,
                            "opts": {"fw": fw, "max_literals": mx, "sreg": list(pl.DEFAULT_SREG), "nested": False, "meta": False, "pic": False}})
    return out


def build_samples(case):
    strings, assign, n, pos = case["strings"], case["assign"], case["nsamples"], case["position"]
    buckets = [[] for _ in range(n)]
    for s, a in zip(strings, assign):
        buckets[a % n].append(s)
    nd = int(case.get("dup") or 0)
    if nd and strings:
        # observed again: the same strings occur a second time at the position (in another container / sample)
        buckets[-1].extend(strings[:nd])
    samples = []
    if pos == "scalar":
        flat = [s for b in buckets for s in b]
        samples = [{"f": s, "g": 1} for s in flat] or [{"g": 1}]
    elif pos == "list":
        samples = [{"f": list(b), "g": 1} for b in buckets]
    else:
        samples = [{"f": {"k%d" % i: s for i, s in enumerate(b)}, "g": 1} for b in buckets]
    if case.get("second_position") and strings:
        # another position of the same model sees only the first string: its Literal must not pick up the others
        for smp in samples:
            smp["h2"] = strings[0]
    for at in case.get("absent") or []:
        # samples without the field, at drawn places of the sample list: the position is optional from there on
        samples.insert(min(at, len(samples)), {"g": 2, "h2": strings[0]} if case.get("second_position") and strings else {"g": 2})
    if case.get("inner"):
        # the position sits in a non-root model and the nested layout is rendered (nested class bodies are re-indented)
        samples = [{"o": s, "h": i} for i, s in enumerate(samples)]
    return samples


def valid(case):
    try:
        if not (isinstance(case["strings"], list) and all(isinstance(s, str) for s in case["strings"])):
            return False
        if len(set(case["strings"])) != len(case["strings"]) or len(case["assign"]) != len(case["strings"]):
            return False
        if not all(isinstance(a, int) and a >= 0 for a in case["assign"]) or not (1 <= case["nsamples"] <= 20):
            return False
        if case["position"] not in ("scalar", "list", "dict") or not isinstance(case.get("inner", False), bool):
            return False
        if not all(isinstance(a, int) and a >= 0 for a in case.get("absent") or []):
            return False
        if any("\ud800" <= ch <= "\udfff" for s in case["strings"] for ch in s):
            return False
        from . import c01
        o = case["opts"]
        return o.get("fw") in pl.FRAMEWORKS and c01.opts_valid(o) and isinstance(o.get("max_literals"), int)
    except Exception:  # noqa: BLE001
        return False


def expected_component(strings, sreg_names, fw, maxlit):
    """-> (typing object | None for 'no strings', uses_literal)"""
    comp = oracle.strref(strings, sreg_names)
    parts = []
    lit = False
    for c in comp:
        if c == "str":
            parts.append(str)
        elif isinstance(c, tuple):
            vals = c[1]
            if fw != "attrs" and len(vals) < maxlit:
                parts.append(typing.Literal[tuple(vals)])
                lit = True
            else:
                parts.append(str)
        else:
            cls = pl.PSEUDO[c]
            parts.append(cls.actual_type if fw in ("pydantic", "sqlmodel") else cls)
    if not parts:
        return None, False
    return (typing.Union[tuple(parts)] if len(parts) > 1 else parts[0]), lit


def check(case):
    r = R()
    opts = pl.norm_opts(case["opts"])
    fw, maxlit, pos = opts["fw"], opts["max_literals"], case["position"]
    strings = list(case["strings"])
    samples = build_samples(case)
    if pos == "dict":
        opts["dkf"] = ["f"]
    observed = []
    for s in samples:
        v = (s["o"] if case.get("inner") else s).get("f")
        observed += [v] if isinstance(v, str) else list(v) if isinstance(v, list) else list(v.values()) if isinstance(v, dict) else []
    plain = [s for s in set(observed) if oracle.detect_ref(s, opts["sreg"]) is None]
    n = len(plain)
    near = any(18 <= len(s) <= 21 for s in plain) or 14 <= n <= 16 or abs(n - maxlit) <= 1
    esc = any(ch in ESCAPING for s in plain for ch in s)
    if near:
        r.label("near-limit")
    if esc:
        r.label("needs-escaping")
    r.label("fw:" + fw, "position:" + pos)
    r.nontrivial = (near or esc) and bool(plain)
    ok, b = unowned(r, pl.build, samples, opts)
    if not ok:
        return r
    inner = bool(case.get("inner"))
    if inner:
        opts["nested"] = pl.is_tree(b.reg)
        r.label("inner-model" + (":nested-layout" if opts["nested"] else ""))
    ok, src = unowned(r, pl.render, b.reg, opts)
    if not ok:
        return r
    v = codeview.load_view(r, b, opts, src, bool(opts["nested"]), own=False)
    if v is None:
        if inner and r.skip and r.skip.startswith("load-problem:load:SyntaxError"):
            # the annotation cannot even be evaluated: the property's own business when the strings sit in a nested class
            r.skip = None
            r.fail("annotation-does-not-evaluate", src)
        return r
    cls = v.cls_of[b.roots[0].type.index]
    if inner:
        from ..pipeline import dt
        t = b.roots[0].type.type.get("o")
        t = t.type if isinstance(t, dt.DOptional) else t
        if not isinstance(t, dt.ModelPtr):
            r.skip = "inner-object-not-a-model"
            return r
        cls = v.cls_of[t.type.index]
    hints = v.ld.hints[cls]
    comp, lit = expected_component(observed, opts["sreg"], fw, maxlit)
    if pos == "scalar":
        exp = comp
        if exp is None:
            return r
    elif pos == "list":
        exp = typing.List[comp if comp is not None else typing.Any]
    else:
        exp = typing.Dict[str, comp if comp is not None else typing.Any]
    if case.get("absent") and any("f" in (smp["o"] if inner else smp) for smp in samples):
        r.label("optional-position")
        exp = typing.Optional[exp]
    got = hints.get("f")
    if got is None and "f" not in hints:
        r.fail("field-missing", src)
        return r
    if not oracle.same_typing(got, exp):
        gl = "Literal" in repr(got)
        el = "Literal" in repr(exp)
        kind = "literal-expected" if el and not gl else "literal-unexpected" if gl and not el else \
            "literal-values-differ" if gl and el else "annotation-differs"
        r.fail(kind, f"got {got!r}\nexpected {exp!r}\nplain={sorted(plain)!r} max_literals={maxlit} fw={fw}\n{src}")
    if case.get("second_position") and strings:
        comp2, _ = expected_component([strings[0]], opts["sreg"], fw, maxlit)
        got2 = hints.get("h2")
        if comp2 is not None and got2 is not None and not oracle.same_typing(got2, comp2):
            r.fail("literal-values-leak-to-another-position", f"h2: got {got2!r}, expected {comp2!r} (only {strings[0]!r} was observed there)\n{src}")
    if (maxlit == 0 or fw == "attrs") and "Literal" in src:
        r.fail("literal-token-present", src)
    return r


def phases(tier):
    n = {"quick": 16 * 1100, "thorough": 16 * 30000}[tier]
    return [dict(name="grid", kind="enumerate", cases=grid_cases, check=check),
            dict(name="main", kind="hypothesis", strategy=cases(tier), check=check, examples=n)]
