"""C05 — models are merged exactly along the configured similarity relation."""
import itertools

from hypothesis import strategies as st

from .. import gen, oracle, irx, pipeline as pl
from ..core import R, owned, unowned, input_labels, iter_objects
from ..pipeline import dt
from . import c01

ID = "C05"
LEVEL = "exploration"
RULE = ("(a) Hypothesis: 1-3 root models from C01's sample generator (sibling-object booster) x comparator sets whose thresholds are "
        "drawn from the Jaccard ratios / shared-key counts actually present between the objects of the case (so many cases sit "
        "exactly on a threshold). The registry is snapshotted before merge_models; reference relation = own implementation of "
        "exact / percent / number (thresholds incl. 0) on the original key sets, closed by union-find; a second merge_models() call after more data is checked against the relation over the key sets held then. Oracle: replacement list == components of size "
        ">= 2; merged key set == union of members' key sets; singleton models are the same objects with unchanged field types "
        "modulo pointer retargeting; merged members unregistered, merged model registered; every pointer reachable from a "
        "registered model and every pointer in pointers/child_pointers targets a registered model, child_pointers complete; then "
        "the first root's samples are processed again into the same registry and merged a second time (incremental use): "
        "pointer integrity again and compose_models_flat must not raise. (b) all undirected similarity "
        "graphs on 5 (quick: plus a seeded sample on 6) / 6 (thorough: all 32768) root models through a table-driven comparator, "
        "and all 64 graphs x 24 registration orders on 4 models. Non-trivial: the reference relation has >= 1 edge and is not "
        "complete. distinct = canonical JSON of the case.")
ASSUMPTIONS = ["models that generate() already fused inside one union are not 'inferred models' and never enter the relation",
               "the reference comparators evaluate the documented formulas in the same floating-point arithmetic"]
EXHAUSTIVE = {"quick": False, "thorough": False}
EXHAUSTIVE_NOTE = ("phase 'table' is exhaustive over all similarity graphs on 5 models and all graphs x registration orders on 4 "
                   "models in both tiers, and over all 32768 graphs on 6 models in the thorough tier")


# ---------------------------------------------------------------------------------------------
# reference

def ref_cmp(merge, a, b):
    policies = merge if merge is not None else [["percent", 70], ["number", 10]]
    for m in policies:
        if m[0] == "exact":
            if a == b:
                return True
        elif m[0] == "percent":
            if not a and not b:
                return True
            if len(a & b) / len(a | b) >= m[1] / 100:
                return True
        elif m[0] == "number":
            if len(a & b) >= int(m[1]):
                return True
    return False


def components(n, edge):
    parent = list(range(n))

    def find(x):
        while parent[x] != x:
            parent[x] = parent[parent[x]]
            x = parent[x]
        return x

    for i in range(n):
        for j in range(i + 1, n):
            if edge(i, j):
                ri, rj = find(i), find(j)
                if ri != rj:
                    parent[ri] = rj
    comps = {}
    for i in range(n):
        comps.setdefault(find(i), []).append(i)
    return list(comps.values())


def canon_field(t, target):
    """canonical form of a field type with every pointer replaced by target(model)"""
    class Sig(dict):
        def get(self, k, default=None):
            return k
    return oracle.canon_type(_retarget(t, target), Sig())


class _P(dt.ModelPtr):
    pass


def _retarget(t, target):
    # build a throw-away structural copy where pointers are replaced by marker strings
    if isinstance(t, dt.ModelPtr):
        return _Marker(target(t.type))
    if isinstance(t, dt.DOptional):
        return dt.DOptional(_retarget(t.type, target))
    if isinstance(t, dt.DList):
        return dt.DList(_retarget(t.type, target))
    if isinstance(t, dt.DDict):
        return dt.DDict(_retarget(t.type, target))
    if isinstance(t, dt.DUnion):
        u = dt.DUnion()
        u.types = [_retarget(x, target) for x in t.types]
        return u
    return t


class _Marker(dt.ModelPtr):
    """pointer stand-in that canonicalises to the component id"""
    def __init__(self, ident):  # noqa: super-init-not-called - deliberately not connected to any model
        self._type = _Id(ident)
        self._hash = None
        self.parent = None
        self.parent_field_name = None


class _Id:
    def __init__(self, ident):
        self.index = ident


def pointer_integrity(r, reg, info, prefix=""):
    registered = {id(m) for m in reg.models}
    for m in reg.models:
        for t in m.type.values():
            for p in pl.iter_ptrs(t):
                if id(p.type) not in registered:
                    r.fail(prefix + "dangling-pointer-in-field", f"{m} -> {p.type}\n{info}")
        for p in m.pointers:
            if p.type is not m:
                r.fail(prefix + "pointers-set-inconsistent", f"{m}: {p} targets {p.type}\n{info}")
            if p.parent is not None and id(p.parent) not in registered:
                r.fail(prefix + "pointer-parent-unregistered", f"{m}: parent {p.parent}\n{info}")
        for p in m.pointers:
            if p.parent is not None and p not in p.parent.child_pointers:
                r.fail(prefix + "child-pointers-incomplete", f"{p.parent} does not list its pointer to {m} ({p.parent_field_name})\n{info}")
        for p in m.child_pointers:
            if id(p.type) not in registered:
                r.fail(prefix + "child-pointer-target-unregistered", f"{m}: {p.type}\n{info}")
            if p.parent is not m:
                r.fail(prefix + "child-pointers-set-inconsistent", f"{m}: {p.parent}\n{info}")


def verify_merge(r, reg, gen_, models_before, edge, detail_prefix=""):
    """run merge_models and compare with the reference components. models_before: list of ModelMeta (registered)."""
    n = len(models_before)
    keysets = [set(m.type.keys()) for m in models_before]
    comps = components(n, edge)
    comp_of = {}
    for ci, c in enumerate(comps):
        for i in c:
            comp_of[id(models_before[i])] = ci
    snapshot = []
    for m in models_before:
        snapshot.append({k: canon_field(t, lambda mm: "c%d" % comp_of.get(id(mm), -1)) for k, t in m.type.items()})
    ptrs_before = [list(m.pointers) for m in models_before]
    desc_before = "\n".join(irx.describe(m) for m in models_before)

    ok, replaces = owned(r, "merge", reg.merge_models, gen_)
    if not ok:
        return None
    info = f"{detail_prefix}components={comps}\nbefore:\n{desc_before}\nafter:\n" + "\n".join(irx.describe(m) for m in reg.models)
    registered = {id(m) for m in reg.models}
    by_index = dict(reg.models_map)
    # replacement list == components of size >= 2
    exp_groups = {frozenset(id(models_before[i]) for i in c) for c in comps if len(c) >= 2}
    try:
        got_groups = {frozenset(id(x) for x in group) for _, group in replaces}
    except Exception:  # noqa: BLE001
        r.fail("replacement-list-malformed", info)
        return None
    if got_groups != exp_groups:
        missing = len(exp_groups - got_groups)
        extra = len(got_groups - exp_groups)
        kind = "not-merged" if missing and not extra else "over-merged" if extra and not missing else "wrong-groups"
        r.fail("replacement-list-differs:" + kind, info)
    if len(replaces) != len(got_groups):
        r.fail("replacement-list-duplicates", info)
    new_of_comp = {}
    for new, group in replaces:
        if id(new) not in registered:
            r.fail("merged-model-not-registered", info)
        ids = frozenset(id(x) for x in group)
        for ci, c in enumerate(comps):
            if ids == frozenset(id(models_before[i]) for i in c):
                new_of_comp[ci] = new
        union_keys = set()
        for x in group:
            if id(x) in registered:
                r.fail("merged-member-still-registered", info)
            union_keys |= set(keysets[[id(m) for m in models_before].index(id(x))]) if id(x) in [id(m) for m in models_before] else set()
        if isinstance(new.type, dict) and set(new.type.keys()) != union_keys:
            r.fail("merged-fields-not-union", f"got {sorted(new.type.keys())} expected {sorted(union_keys)}\n{info}")
    # registered set == singletons + one per merged component
    exp_count = len(comps)
    if len(list(reg.models)) != exp_count:
        r.fail("model-count", f"registered {len(list(reg.models))}, expected {exp_count}\n{info}")
    # singletons untouched
    final_of = {}
    for ci, c in enumerate(comps):
        if len(c) == 1:
            final_of[ci] = models_before[c[0]]
        elif ci in new_of_comp:
            final_of[ci] = new_of_comp[ci]
    comp_of_final = {id(m): ci for ci, m in final_of.items()}
    for ci, c in enumerate(comps):
        if len(c) != 1:
            continue
        m = models_before[c[0]]
        if id(m) not in registered or by_index.get(m.index) is not m:
            r.fail("untouched-model-replaced", info)
            continue
        if set(m.type.keys()) != keysets[c[0]]:
            r.fail("untouched-model-fields-changed", info)
            continue
        now = {k: canon_field(t, lambda mm: "c%d" % comp_of_final.get(id(mm), -2)) for k, t in m.type.items()}
        if now != snapshot[c[0]]:
            diff = {k: (snapshot[c[0]][k], now[k]) for k in now if now[k] != snapshot[c[0]][k]}
            r.fail("untouched-model-types-changed", f"{m}: {diff}\n{info}")
    # pointers
    for i, m in enumerate(models_before):
        ci = comp_of[id(m)]
        tgt = final_of.get(ci)
        for p in ptrs_before[i]:
            if tgt is not None and p.type is not tgt:
                r.fail("pointer-not-retargeted", f"pointer of {m} now targets {p.type}, expected {tgt}\n{info}")
                break
    pointer_integrity(r, reg, info)
    return comps


# ---------------------------------------------------------------------------------------------
# (a) data-driven

def object_keysets(samples_lists):
    out = []
    for samples in samples_lists:
        for s in samples:
            for _, o in iter_objects(s):
                if o:
                    out.append(frozenset(o))
    return out


@st.composite
def data_cases(draw, tier="quick"):
    universe = draw(gen.key_universe(gen.ASCII_KEY_POOLS, min_size=2, max_size=8))
    big = tier == "thorough"
    nroots = draw(st.sampled_from([1, 1, 2, 3]))
    roots = [draw(st.one_of(gen.sibling_samples(universe), gen.sibling_samples(universe), gen.sample_lists(universe, max_samples=6 if big else 4)))
             for _ in range(nroots)]
    ks = object_keysets(roots)
    ratios, counts = set(), set()
    for a, b in itertools.combinations(ks[:12], 2):
        if a | b:
            ratios.add(100 * len(a & b) / len(a | b))
        counts.add(len(a & b))
    ratios = sorted(x for x in ratios if x > 0)[:8]
    counts = sorted(c for c in counts if c > 0)[:5]
    merge = draw(gen.merge_policies(extra_percents=ratios, extra_numbers=[c for c in counts] + [c + 1 for c in counts], zero=True))
    opts = {"merge": merge, "sreg": draw(gen.sregs()),
            "dkr": draw(st.sampled_from([[], [], [r"n_\d+"]])), "dkf": []}
    return {"roots": roots, "opts": opts}


def valid_data(case):
    try:
        return bool(case["roots"]) and c01.opts_valid(case["opts"]) and all(
            c01.valid({"samples": s, "opts": dict(case["opts"], fw="base")}) for s in case["roots"])
    except Exception:  # noqa: BLE001
        return False


def check_data(case):
    r = R()
    roots, opts = case["roots"], pl.norm_opts(case["opts"])
    for s in roots:
        r.label(*input_labels(s))
    ok, b = unowned(r, pl.build, roots[0], opts, "Root0", [("Root%d" % i, s) for i, s in enumerate(roots[1:], 1)], False, False)
    if not ok:
        return r
    models = list(b.reg.models)
    keysets = [set(m.type.keys()) for m in models]
    merge = opts["merge"]
    edges = {(i, j) for i in range(len(models)) for j in range(i + 1, len(models)) if ref_cmp(merge, keysets[i], keysets[j])}
    n = len(models)
    r.nontrivial = 0 < len(edges) < n * (n - 1) // 2
    pol = merge if merge is not None else [["percent", 70], ["number", 10]]
    on_thr = False
    for i in range(n):
        for j in range(i + 1, n):
            a, b2 = keysets[i], keysets[j]
            for m in pol:
                if m[0] == "percent" and (a | b2) and len(a & b2) / len(a | b2) == m[1] / 100:
                    on_thr = True
                if m[0] == "number" and len(a & b2) == int(m[1]):
                    on_thr = True
    if on_thr:
        r.label("pair-exactly-on-threshold")
    if len(roots) > 1:
        r.label("several-root-models")
    if any(not k for k in keysets):
        r.label("empty-model")
    comps = verify_merge(r, b.reg, b.gen, models, lambda i, j: (i, j) in edges)
    if comps is not None and not r.viol:
        # second stage: more data for the same registry, merged again (incremental use); only integrity is claimed here
        # the relation is the same one, over the key sets the registry holds when the second call is made
        def again():
            b.reg.process_meta_data(b.gen.generate(*roots[0]), model_name="Again")
        ok2, _ = owned(r, "second-merge", again)
        if ok2:
            models2 = list(b.reg.models)
            keysets2 = [set(m.type.keys()) for m in models2]
            edges2 = {(i, j) for i in range(len(models2)) for j in range(i + 1, len(models2)) if ref_cmp(merge, keysets2[i], keysets2[j])}
            sub = R()
            comps2 = verify_merge(sub, b.reg, b.gen, models2, lambda i, j: (i, j) in edges2, detail_prefix="second merge_models() call on the same registry; ")
            for clause, detail in sub.viol:
                r.fail("second-merge:" + clause, detail)
            if comps2 is not None and not sub.viol:
                info2 = "after a second merge_models() call on the same registry:\n" + "\n".join(irx.describe(m) for m in b.reg.models)
                pointer_integrity(r, b.reg, info2, prefix="second-merge:")
                owned(r, "second-merge:compose", pl.structure, b.reg, False)
    if comps is not None:
        mx = max(len(c) for c in comps)
        if mx >= 3:
            r.label("merge-group>=3")
        if mx >= 2:
            r.label("merge-group>=2")
    return r


# ---------------------------------------------------------------------------------------------
# (b) table-driven, exhaustive

def make_table_cmp(n, edges):
    from json_to_models.registry import ModelCmp

    class TableCmp(ModelCmp):
        def cmp(self, fields_a, fields_b):
            ia = [int(k[1:]) for k in fields_a if k[0] == "m" and k[1:].isdigit()]
            ib = [int(k[1:]) for k in fields_b if k[0] == "m" and k[1:].isdigit()]
            if len(ia) != 1 or len(ib) != 1:
                return False
            i, j = sorted((ia[0], ib[0]))
            return (i, j) in edges

    return TableCmp()


def pair_list(n):
    return [(i, j) for i in range(n) for j in range(i + 1, n)]


def table_cases(tier):
    out = []
    for mask in range(2 ** 10):
        out.append({"n": 5, "mask": mask, "order": list(range(5))})
    for mask in range(2 ** 6):
        for order in itertools.permutations(range(4)):
            out.append({"n": 4, "mask": mask, "order": list(order)})
    if tier == "thorough":
        for mask in range(2 ** 15):
            out.append({"n": 6, "mask": mask, "order": list(range(6))})
    else:
        # deterministic sample of 6-model graphs (a pure function of nothing but the tier)
        x = 12345
        for _ in range(3000):
            x = (x * 1103515245 + 12345) % (2 ** 31)
            out.append({"n": 6, "mask": x % (2 ** 15), "order": list(range(6))})
    return out


def valid_table(case):
    try:
        n = case["n"]
        return n in (4, 5, 6) and 0 <= case["mask"] < 2 ** (n * (n - 1) // 2) and sorted(case["order"]) == list(range(n))
    except Exception:  # noqa: BLE001
        return False


def check_table(case):
    r = R()
    n, mask, order = case["n"], case["mask"], case["order"]
    pairs = pair_list(n)
    edges = {p for bit, p in enumerate(pairs) if mask >> bit & 1}
    r.nontrivial = 0 < len(edges) < len(pairs)
    r.label("n:%d" % n)
    g = pl.MetadataGenerator(str_types_registry=pl.make_sreg(pl.DEFAULT_SREG))
    reg = pl.ModelRegistry(make_table_cmp(n, edges))
    models = [None] * n
    for i in order:
        # root model i: marker field, a shared field whose types differ, a nested child and a reference to be retargeted
        meta = {"m%d" % i: int, "v": [int, str, float][i % 3], "c": {"k%d" % i: int, "w": str}}
        if i % 2:
            meta["opt"] = dt.DOptional(int)
        ptr = reg.process_meta_data(meta, model_name="M%d" % i)
        models[i] = ptr.type
    all_models = list(reg.models)
    idx = {id(m): i for i, m in enumerate(models)}

    def edge(a, b):
        ia, ib = idx.get(id(all_models[a])), idx.get(id(all_models[b]))
        if ia is None or ib is None:
            return False
        i, j = sorted((ia, ib))
        return (i, j) in edges

    comps = verify_merge(r, reg, g, all_models, edge, detail_prefix=f"edges={sorted(edges)} order={order}\n")
    return r


def valid(case):
    return valid_table(case) if "mask" in case else valid_data(case)


def phases(tier):
    n = {"quick": 16 * 1200, "thorough": 16 * 40000}[tier]
    return [dict(name="table", kind="enumerate", cases=table_cases, check=check_table),
            dict(name="data", kind="hypothesis", strategy=data_cases(tier), check=check_data, examples=n)]
