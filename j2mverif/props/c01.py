"""C01 — generated models accept every sample they were inferred from."""
import re

from hypothesis import strategies as st

from .. import gen, oracle, findings, pipeline as pl
from ..core import R, owned, input_labels

ID = "C01"
LEVEL = "exploration"
RULE = ("Hypothesis: key universe (plain ASCII pool) -> 1-5 JSON objects (generic recursive values mixed with shape boosters: "
        "overlapping sibling objects, recursive data, one field seen missing/null/scalar kinds/[]/[null], dict-like key sets, "
        "a child referring back to its root, same-named children of merged parents, reordered records, one field across the numeric "
        "family, literal-limit and comma-collision shapes) x user-given root model name "
        "x option set (framework, layout, merge policy, dict-key options, string registry, literal limit, converters, meta, "
        "unicode). Oracle: IR inhabitation of every sample in the root model, code-level inhabitation in the loaded root class "
        "(exactly one field per key, value in evaluated annotation, required fields present), pydantic parse_obj. "
        "Non-trivial: >= 2 samples that differ in key set or hold different value kinds at one position, or a sample with a "
        "nested object/list. distinct = distinct canonical JSON of (samples, options).")
ASSUMPTIONS = ["sqlmodel output is loaded against a pydantic.v1-based stub package",
               "nested layout is requested only when the final model graph is tree-shaped (else flat is rendered)",
               "pydantic/sqlmodel annotations admit strings their pseudo-type parser accepts (pydantic coercion)",
               "floats are finite (NaN/Infinity are not JSON)"]
FLOORS = {"mixed-kinds-at-position": 0.15, "similar-objects": 0.10, "pseudo-string": 0.08}

K5_PATTERN = re.compile(r"Optional\[(List\[None\]|Dict\[str, None\])\]")


@st.composite
def cases(draw, tier="quick", pools=None, frameworks=gen.FRAMEWORKS, root_names=None):
    universe = draw(gen.key_universe(pools or gen.ASCII_KEY_POOLS, min_size=1, max_size=7))
    big = tier == "thorough"
    samples = draw(gen.sample_lists(universe, max_samples=8 if big else 5, max_leaves=14 if big else 10))
    opts = draw(gen.option_sets(universe, frameworks=frameworks))
    if not opts["unicode"] and any(gen.nfkc_unstable(k) for k in universe):
        opts["unicode"] = True      # finding nfkc-unstable-key-without-transliteration, excluded by construction
    if draw(st.integers(0, 24)) == 0:
        samples, opts["merge"] = draw(gen.same_named_children(universe))
        opts["dkr"], opts["dkf"] = [], []
    if root_names:
        # the name the user gives the root model (-m NAME / process_meta_data(model_name=NAME)) is part of the input
        root = draw(st.sampled_from(["Root", "Root"] + list(root_names)))
        if root != "Root" and not gen.class_name_collision(universe, root) and (opts["unicode"] or not gen.nfkc_unstable(root)):
            opts["root"] = root
    return {"samples": samples, "opts": opts}


def valid(case):
    try:
        s = case["samples"]
        if not (isinstance(s, list) and s and all(isinstance(x, dict) for x in s)):
            return False
        o = case["opts"]
        if not isinstance(o, dict) or o.get("fw") not in pl.FRAMEWORKS:
            return False
        if not opts_valid(o):
            return False
        from ..findings import all_keys
        for x in s:
            ks = list(all_keys(x))
            if gen.class_name_collision(sorted(set(ks)), o.get("root")):
                return False
            if not o.get("unicode", True) and any(gen.nfkc_unstable(k) for k in ks):
                return False
            if any(not isinstance(k, str) or gen.key_status(k) is not None for k in ks):
                return False
            for ob in _objects(x):
                f = [gen.fold(k) for k in ob]
                if len(set(f)) != len(f) or gen.digit_word_collision(list(ob)):
                    return False
        return _floats_ok(s)
    except Exception:  # noqa: BLE001
        return False


def opts_valid(o):
    m = o.get("merge")
    if m is not None:
        if not (isinstance(m, list) and m):
            return False
        for p in m:
            if not (isinstance(p, list) and p and p[0] in ("exact", "percent", "number")):
                return False
            if p[0] == "exact" and len(p) != 1:
                return False
            if p[0] == "percent" and not (len(p) == 2 and isinstance(p[1], (int, float)) and not isinstance(p[1], bool) and 0 <= p[1] <= 100):
                return False
            if p[0] == "number" and not (len(p) == 2 and isinstance(p[1], int) and not isinstance(p[1], bool) and p[1] >= 0):
                return False
    sr = o.get("sreg")
    if sr is not None and not (isinstance(sr, list) and all(x in pl.PSEUDO for x in sr) and len(set(sr)) == len(sr)):
        return False
    for k in ("dkr", "dkf"):
        v = o.get(k)
        if v is not None and not (isinstance(v, list) and all(isinstance(x, str) for x in v)):
            return False
    if "dkr" in o:
        import re
        for x in o["dkr"] or []:
            try:
                re.compile(x)
            except re.error:
                return False
    ml = o.get("max_literals")
    if ml is not None and not (isinstance(ml, int) and not isinstance(ml, bool) and 0 <= ml <= 100):
        return False
    for k in ("nested", "pic", "meta", "unicode"):
        if k in o and not isinstance(o[k], bool):
            return False
    return True


def _objects(v):
    if isinstance(v, dict):
        yield v
        for x in v.values():
            yield from _objects(x)
    elif isinstance(v, list):
        for x in v:
            yield from _objects(x)


def _floats_ok(v):
    if isinstance(v, float):
        return v == v and v not in (float("inf"), float("-inf"))
    if isinstance(v, dict):
        return all(_floats_ok(x) for x in v.values())
    if isinstance(v, list):
        return all(_floats_ok(x) for x in v)
    return True


def has_pseudo_string(samples, names):
    def rec(v):
        if isinstance(v, str):
            return oracle.detect_ref(v, names) is not None
        if isinstance(v, dict):
            return any(rec(x) for x in v.values())
        if isinstance(v, list):
            return any(rec(x) for x in v)
        return False
    return any(rec(s) for s in samples)


def check(case):
    r = R()
    samples, opts = case["samples"], pl.norm_opts(case["opts"])
    labs = input_labels(samples)
    r.label(*labs)
    r.label("fw:" + opts["fw"])
    if has_pseudo_string(samples, pl.FULL_SREG[:3]):
        r.label("pseudo-string")
    r.nontrivial = bool(labs & {"key-sets-differ", "mixed-kinds-at-position", "nested"})

    ok, b = owned(r, "generate", pl.build, samples, opts)
    if not ok:
        return r
    root = b.roots[0].type
    # level 1: IR
    try:
        for i, s in enumerate(samples):
            why = []
            if not oracle.model_accepts(s, root, why):
                r.fail("ir-reject:" + why[-1][0] if why else "ir-reject", f"sample {i}: {why[-1] if why else ''}")
                break
    except oracle.MalformedIR as e:
        r.fail("ir-malformed", e)
    except RecursionError:
        r.fail("ir-recursion", "")

    # level 2: emitted code
    tree = pl.is_tree(b.reg, roots_referenced=True)
    nested = bool(opts["nested"] and tree)
    r.label("layout:nested" if nested else "layout:flat")
    if not tree:
        r.label("graph:not-tree")
    ropts = dict(opts, nested=nested)
    ok, src = owned(r, "render", pl.render, b.reg, ropts)
    if not ok:
        return r
    ok, mod = owned_load(r, src)
    if not ok:
        return r
    fw = opts["fw"]
    try:
        ld = pl.resolve_hints(mod, fw)
    except Exception as e:  # noqa: BLE001
        r.fail("hints:" + type(e).__name__, f"{e}\n{src}")
        return r
    rootcls = [c for c, encl, p in ld.classes if c.__name__ == root.name and not encl]
    if len(rootcls) != 1:
        r.fail("root-class-missing", f"{root.name}\n{src}")
        return r
    rootcls = rootcls[0]
    ctx = oracle.PyCtx(fw, ld, coerce=fw in ("pydantic", "sqlmodel"))
    dropped = set()
    for i, s in enumerate(samples):
        ctx.why.clear()
        try:
            okc = oracle.class_accepts(s, rootcls, ctx, dropped)
        except RecursionError:
            okc = False
            ctx.why.append(("recursion",))
        if not okc:
            w = ctx.why[0] if ctx.why else ("?",)
            r.fail("code-reject:" + w[0], f"sample {i}: {ctx.why}\n{src}")
            break
    if dropped and not r.viol:
        routing = oracle.Routing(b.reg, [(root, samples)])
        by_name = {m.name: m for m in b.reg.models}
        for cls, k in dropped:
            m = by_name.get(cls.__name__)
            vals = routing.fieldvals.get((m.index, k), []) if m is not None else []
            if m is None or any(v is not None for v, _ in vals):
                r.fail("dropped-key-with-non-null-value", f"{cls.__name__}.{k}: {oracle.short([v for v, _ in vals])}\n{src}")
                break

    # level 3: pydantic itself
    if fw in ("pydantic", "sqlmodel") and not r.viol:
        k5 = bool(K5_PATTERN.search(src))
        k8 = findings.pydantic_stricter_datetime(case)
        for i, s in enumerate(samples):
            try:
                rootcls.parse_obj(s)
            except Exception as e:  # noqa: BLE001
                if k5:
                    r.counters["k5-pattern-parse-failures"] += 1
                    r.fail("pydantic-parse[optional-container-of-none]", f"sample {i}: {e}\n{src}")
                elif not isinstance(e, ValueError) and findings.pydantic_parser_overflow(case):
                    r.counters["k11-parser-overflow-failures"] += 1
                    r.fail("pydantic-parse[parser-overflow]", f"sample {i}: {type(e).__name__}: {e}\n{src}")
                elif k8:
                    r.counters["k8-stricter-datetime-parse-failures"] += 1
                    r.fail("pydantic-parse[stricter-datetime-parser]", f"sample {i}: {e}\n{src}")
                else:
                    r.fail("pydantic-parse:" + type(e).__name__, f"sample {i}: {e}\n{src}")
                break
    return r


def owned_load(r, src):
    try:
        return True, pl.load_source(src)
    except RecursionError:
        r.fail("load:RecursionError", src)
    except Exception as e:  # noqa: BLE001
        r.fail("load:" + type(e).__name__, f"{e}\n{src}")
    return False, None


def phases(tier):
    n = {"quick": 16 * 1200, "thorough": 16 * 22000}[tier]
    return [dict(name="main", kind="hypothesis", strategy=cases(tier, root_names=gen.ROOT_NAMES), check=check, examples=n)]
