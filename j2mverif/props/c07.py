"""C07 — sample order and repetition do not change what is inferred."""
from hypothesis import strategies as st

from .. import gen, oracle, pipeline as pl
from ..core import R, exc_sig, input_labels
from . import c01

ID = "C07"
LEVEL = "exploration"
RULE = ("Hypothesis: sample list (C01's generator, plain ASCII keys, up to 5/8 samples) x a drawn permutation x 0-3 repetitions of "
        "existing samples inserted at drawn positions x merge policy / dict-key options / string registry. Metamorphic oracle: the "
        "canonical form of the final registry (bisimulation classes of models; fields as sets with required/optional status; unions "
        "and literals as sets; class names and order ignored) of the transformed list equals that of the original list; an "
        "exception on one side only is a violation. Non-trivial: the permutation moves two distinct samples or a repetition is "
        "inserted, and the samples are not all equal. distinct = canonical JSON of the whole case.")
ASSUMPTIONS = ["two structurally identical models that were not merged count once (class-name suffixes may differ)"]
FLOORS = {"mixed-kinds-at-position": 0.12, "similar-objects": 0.10}


@st.composite
def cases(draw, tier="quick"):
    universe = draw(gen.key_universe(gen.ASCII_KEY_POOLS, min_size=1, max_size=7))
    big = tier == "thorough"
    samples = draw(gen.sample_lists(universe, max_samples=8 if big else 5, max_leaves=12 if big else 9))
    if len(samples) < 2:
        samples = samples + draw(gen.generic_samples(universe, max_samples=3, max_leaves=6))
    opts = draw(gen.option_sets(universe, frameworks=["base"], layouts=[False]))
    for k in ("fw", "nested", "pic", "meta", "unicode", "max_literals"):
        opts.pop(k, None)
    if draw(st.integers(0, 9)) == 0:
        samples, opts["merge"] = draw(gen.same_named_children(universe))
        if len(samples) < 2:
            samples = samples + [samples[0]]
        opts["dkr"], opts["dkf"] = [], []
    n = len(samples)
    perm = draw(st.permutations(list(range(n))))
    ndup = draw(st.integers(0, 3))
    dups = [[draw(st.integers(0, n - 1)), draw(st.integers(0, n + i))] for i in range(ndup)]
    return {"samples": samples, "perm": list(perm), "dups": dups, "opts": opts}


def transformed(case):
    s = case["samples"]
    out = [s[i] for i in case["perm"]]
    for src, pos in case["dups"]:
        out.insert(min(pos, len(out)), s[src])
    return out


def valid(case):
    try:
        n = len(case["samples"])
        if sorted(case["perm"]) != list(range(n)):
            return False
        if not all(isinstance(d, list) and len(d) == 2 and 0 <= d[0] < n and d[1] >= 0 for d in case["dups"]):
            return False
        return c01.valid({"samples": case["samples"], "opts": dict(case["opts"], fw="base")})
    except Exception:  # noqa: BLE001
        return False


def run(samples, opts):
    try:
        b = pl.build(samples, opts)
        return "ok", oracle.canon_graph(b.reg.models)[0], b
    except RecursionError:
        return "exc", ("RecursionError", None), None
    except Exception as e:  # noqa: BLE001
        return "exc", exc_sig(e), None


def check(case):
    r = R()
    samples, opts = case["samples"], pl.norm_opts(case["opts"])
    r.label(*input_labels(samples))
    t = transformed(case)
    from ..core import canon_json
    distinct = len({canon_json(s) for s in samples}) > 1
    moved = [canon_json(a) for a in samples] != [canon_json(b) for b in t[:len(samples)]] or len(t) != len(samples)
    r.nontrivial = distinct and moved
    if case["dups"]:
        r.label("with-repetition")
    if case["perm"] != sorted(case["perm"]):
        r.label("permuted")
    k1, g1, b1 = run(samples, opts)
    k2, g2, b2 = run(t, opts)
    if k1 == "exc" and k2 == "exc":
        r.skip = f"pipeline-error:{g1[0]}@{g1[1]}"
        return r
    if k1 != k2:
        r.fail("exception-on-one-side", f"original: {k1} {g1 if k1 == 'exc' else ''}; transformed: {k2} {g2 if k2 == 'exc' else ''}")
        return r
    if g1 != g2:
        only1 = sorted(g1 - g2)
        only2 = sorted(g2 - g1)
        kind = "models-differ"
        r.fail(kind, f"only in original order: {only1}\nonly in transformed: {only2}\ntransformed samples: {oracle.short(t, 600)}")
    return r


def phases(tier):
    n = {"quick": 16 * 1100, "thorough": 16 * 35000}[tier]
    return [dict(name="main", kind="hypothesis", strategy=cases(tier), check=check, examples=n)]
