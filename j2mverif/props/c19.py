"""C19 — header and preamble never corrupt the generated module."""
import ast
import json
import os
import re
import tempfile

from hypothesis import strategies as st

from .. import gen, pipeline as pl, subproc
from ..core import R
from . import c01, c16

ID = "C19"
LEVEL = "exploration"
RULE = ("Hypothesis: noise strings over an alphabet of double/single quotes, triple quotes of both kinds, backslashes (also trailing), "
        "newline, tab, '#', '%', braces, non-ASCII and astral characters, carried in argv through the data file name and the "
        "--code-generator-kwargs values of a permissive custom generator; preamble texts that are valid Python by construction "
        "(comment lines '# text', assignments NAME = repr(text), triple-quoted string statements) wrapped in random blank space, each "
        "carrying a unique marker token, plus empty / whitespace-only preambles x 5 frameworks x data with and without imports. "
        "Drivers: in-process CLI with sys.argv patched, and real subprocesses. Oracle: ast.parse(output) succeeds; the first "
        "statement is a string constant holding the version banner; after the header the stripped preamble occurs exactly once as "
        "a contiguous substring, after the last import statement and before the first class (AST line numbers); output with an "
        "empty/blank preamble equals output without --preamble after the header; the module still execs with its own imports. "
        "Non-trivial: the noise or preamble contains a quote, triple quote, backslash or newline. distinct = canonical JSON.")
ASSUMPTIONS = ["\\r and NUL are not generated in argv", "sqlmodel output is exec'd against the stub"]

NOISE_ALPHABET = ['"', "'", '"""', "'''", "\\", "\n", "\t", "#", "%", "{", "}", " ", "a", "Z", "é", "Ж", "😀", "𝔘", "=", "$", "`", "\\n", "\\x", "\\u12", "\\N{", '\\"',
                  "\u2028", "\u2029", "\x85", "\x0c", "\x1c", "\x1e", "\\\\", "\\\\\"\"\""]


def noise():
    return st.lists(st.sampled_from(NOISE_ALPHABET), max_size=8).map("".join)


@st.composite
def preambles(draw):
    kind = draw(st.sampled_from(["none", "blank", "code", "code", "code", "code"]))
    if kind == "none":
        return None
    if kind == "blank":
        return draw(st.sampled_from(["", " ", "\n", " \n\t\n ", "\t"]))
    marker = "PRE_%06d" % draw(st.integers(0, 999999))
    lines = []
    for i in range(draw(st.integers(1, 3))):
        form = draw(st.sampled_from(["comment", "assign", "triple", "import"]))
        if form == "comment":
            t = draw(noise()).replace("\n", " ")
            lines.append("# " + marker + " " + t)
        elif form == "assign":
            lines.append("_%s_%d = %r" % (marker, i, draw(noise())))
        elif form == "import":
            lines.append("import os as _%s_os%d" % (marker, i))
        else:
            t = draw(st.lists(st.sampled_from(["a", "\n", "'", "#", " ", "é", "b", "%", "{", "\u2028", "\x85", "\x0c", "\x1d"]), max_size=8).map("".join))
            lines.append('"""%s %s"""' % (marker, t))
    if not any(marker in ln for ln in lines):
        lines.insert(0, "# " + marker)
    body = "\n".join(lines)
    lead = draw(st.sampled_from(["", "", "\n", "  \n", "\n\n", "  ", "\t", "\n   "]))
    trail = draw(st.sampled_from(["", "", "\n", " \n\n", "\t"]))
    return lead + body + trail


@st.composite
def cases(draw, tier="quick"):
    fw = draw(st.sampled_from(gen.FRAMEWORKS + ["custom"]))
    with_imports = draw(st.booleans())
    samples = [{"a": 1, "b": [1, "x"], "c": {"d": None}}] if with_imports else [{"a": 1, "b": 2.5}]
    file_noise = draw(noise()).replace("/", "").replace("\x00", "")[:40]
    kwargs_noise = [draw(noise()) for _ in range(draw(st.integers(0, 2)))] if fw == "custom" else []
    return {"fw": fw, "samples": samples, "file_noise": file_noise, "kwargs_noise": kwargs_noise,
            "preamble": draw(preambles()), "nested": draw(st.booleans()), "output": draw(st.sampled_from([False, False, True])),
            "reuse_cli": draw(st.sampled_from([False, False, True]))}


def valid(case):
    try:
        if case["fw"] not in pl.FRAMEWORKS + ("custom",):
            return False
        for s in [case["file_noise"]] + list(case["kwargs_noise"]) + ([case["preamble"]] if case["preamble"] is not None else []):
            if not isinstance(s, str) or "\x00" in s or "\r" in s or any("\ud800" <= c <= "\udfff" for c in s):
                return False
        if "/" in case["file_noise"] or len(case["file_noise"].encode()) > 200:
            return False
        if case["kwargs_noise"] and case["fw"] != "custom":
            return False
        p = case["preamble"]
        if p is not None and p.strip():
            try:
                ast.parse(p.strip())
            except SyntaxError:
                return False
            if not re.search(r"PRE_\d{6}", p):
                return False
        return c01.valid({"samples": case["samples"], "opts": {"fw": "base"}}) and isinstance(case["nested"], bool)
    except Exception:  # noqa: BLE001
        return False


def argv_for(case, fname, preamble_mode="given"):
    argv = ["-m", "Root", fname, "-s", "nested" if case["nested"] else "flat"]
    if case["fw"] == "custom":
        argv += ["-f", "custom", "--code-generator", "j2mverif.faultgen.PermissiveGenerator"]
        if case["kwargs_noise"]:
            argv += ["--code-generator-kwargs"] + ["n%d=%s" % (i, s) for i, s in enumerate(case["kwargs_noise"])]
    else:
        argv += ["-f", case["fw"]]
    if preamble_mode == "given" and case["preamble"] is not None:
        argv += ["--preamble", case["preamble"]]
    return argv


def run(case, driver, d, argv):
    if driver == "inproc":
        try:
            prior = None
            if case.get("reuse_cli"):
                # the Cli object has already served a conversion with another preamble
                prior = [a for a in argv_for(dict(case, preamble="# EARLIER_PREAMBLE = 1", fw=case["fw"]), argv[2])]
            return 0, c16.run_in_process(argv, d, prior_argv=prior), ""
        except SystemExit as e:
            return (e.code or 0) or 2, "", "SystemExit"
        except Exception as e:  # noqa: BLE001
            return 1, "", f"{type(e).__name__}: {e}"
    rc, out, err = subproc.run_cli(argv, cwd=d)
    return rc, (out[:-1] if out.endswith("\n") else out), err


def check_with(case, driver):
    r = R()
    texts = [case["file_noise"]] + list(case["kwargs_noise"]) + ([case["preamble"]] if case["preamble"] else [])
    r.nontrivial = any(ch in t for t in texts for ch in ('"', "'", "\\", "\n"))
    r.label("fw:" + case["fw"], "driver:" + driver)
    pre = case["preamble"]
    r.label("preamble:" + ("none" if pre is None else "blank" if not pre.strip() else "code"))
    if any('"""' in t for t in texts):
        r.label("triple-double-quote-in-argv")
    with tempfile.TemporaryDirectory(prefix="j2mv_c19_") as d:
        fname = "d" + case["file_noise"] + ".json"
        try:
            with open(os.path.join(d, fname), "w", encoding="utf-8") as f:
                json.dump(case["samples"], f)
        except OSError:
            r.skip = "file-name-not-usable"
            return r
        argv = argv_for(case, fname)
        if case["output"]:
            argv += ["-o", os.path.join(d, "out.py")]
        if any(a.startswith("-") and i > 0 and argv[i - 1] in ("--preamble",) for i, a in enumerate(argv)):
            r.skip = "preamble-looks-like-an-option"
            return r
        rc, out, err = run(case, driver, d, argv)
        if rc != 0:
            if "expected one argument" in err or err == "SystemExit":
                r.skip = "argparse-rejects-argv"
                return r
            r.fail("cli-fails", f"argv {argv!r}: rc={rc} {err[-300:]}")
            return r
        if case["output"]:
            try:
                out = open(os.path.join(d, "out.py"), encoding="utf-8").read()
            except OSError as e:
                r.fail("output-file-missing", str(e))
                return r
        try:
            tree = ast.parse(out)
        except SyntaxError as e:
            r.fail("output-not-valid-python", f"{e}; argv {argv!r}\n{out[:1200]}")
            return r
        if not tree.body or not (isinstance(tree.body[0], ast.Expr) and isinstance(tree.body[0].value, ast.Constant)
                                 and isinstance(tree.body[0].value.value, str)):
            r.fail("first-statement-not-header-string", f"argv {argv!r}\n{out[:600]}")
            return r
        if "generated by json2python-models" not in tree.body[0].value.value:
            r.fail("header-without-banner", out[:400])
        hend = tree.body[0].end_lineno
        lines = out.split("\n")
        rest = "\n".join(lines[hend:])
        body = tree.body[1:]
        if pre is not None and pre.strip():
            sp = pre.strip()
            cnt = rest.count(sp)
            if cnt != 1:
                r.fail("preamble-not-exactly-once", f"{cnt} occurrences of {sp!r}\n{out[:1500]}")
            else:
                start = rest.index(sp)
                first_line = hend + rest[:start].count("\n") + 1
                last_line = first_line + sp.count("\n")
                marker = re.search(r"PRE_\d{6}", sp).group(0)
                imports = [n for n in body if isinstance(n, (ast.Import, ast.ImportFrom)) and marker not in ast.unparse(n)]
                classes = [n for n in body if isinstance(n, ast.ClassDef)]
                if any(n.lineno >= first_line for n in imports):
                    r.fail("preamble-before-an-import", f"{out[:1500]}")
                for c in classes:
                    top = min([c.lineno] + [dd.lineno for dd in c.decorator_list])
                    if top <= last_line:
                        r.fail("preamble-after-a-class", f"{out[:1500]}")
                        break
        else:
            # blank / no preamble: identical to a run without --preamble (after the header)
            if pre is not None:
                argv2 = argv_for(case, fname, preamble_mode="omit")
                rc2, out2, err2 = run(case, driver, d, argv2)
                if rc2 != 0:
                    r.fail("cli-fails-without-preamble", err2[-300:])
                    return r
                try:
                    t2 = ast.parse(out2)
                    rest2 = "\n".join(out2.split("\n")[t2.body[0].end_lineno:])
                except (SyntaxError, IndexError, AttributeError):
                    r.skip = "reference-run-unparsable"
                    return r
                if rest != rest2:
                    r.fail("blank-preamble-changes-output", f"with blank preamble {pre!r}:\n{rest[:800]}\n--- without:\n{rest2[:800]}")
        if "EARLIER_PREAMBLE" in rest:
            r.fail("preamble-of-an-earlier-run-appears", out[:1200])
        try:
            pl.load_source(out)
        except Exception as e:  # noqa: BLE001
            r.fail("output-does-not-exec:" + type(e).__name__, f"{e}; argv {argv!r}\n{out[:1200]}")
    return r


def check(case):
    return check_with(case, "inproc")


def check_subproc(case):
    return check_with(case, "subproc")


def phases(tier):
    q = tier == "quick"
    return [dict(name="inproc", kind="hypothesis", strategy=cases(tier), check=check, examples=(16 * 800 if q else 16 * 15000)),
            dict(name="subproc", kind="hypothesis", strategy=cases(tier), check=check_subproc, examples=(16 * 8 if q else 16 * 120))]
