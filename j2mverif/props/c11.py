"""C11 — JSON keys survive renaming: distinct keys give distinct, recoverable fields."""
import keyword

from hypothesis import strategies as st

from .. import gen, oracle, codeview, pipeline as pl
from ..core import R, unowned
from . import c01, c03

ID = "C11"
LEVEL = "exploration"
RULE = ("Hypothesis: one object with 2-12 keys drawn from the full key pools plus digit-first keys (pairwise distinct after "
        "case/punctuation folding, label non-empty, not underscore/0-initial, not framework-reserved); values are scalars or, for "
        "letter-initial keys, nested objects / lists of objects (so class names derive from the same keys) x unicode "
        "transliteration on/off x 5 frameworks x meta on/off x layout. Oracle on the loaded module: field names pairwise distinct, "
        "identifiers, not keywords, each folding to its key; when name != key the pydantic alias / the J2M_ORIGINAL_FIELD metadata "
        "(meta on) equals the key exactly; pydantic: parse_obj of the object populates every field with its value; class names "
        "valid, pairwise distinct and disjoint from the module's imported names. Non-trivial: >= 1 key needs renaming. "
        "distinct = canonical JSON of (keys, nested flags, options).")
ASSUMPTIONS = ["folded-equal keys, empty labels, leading underscores and framework-reserved names are excluded by construction "
               "(listed known findings, counted); load failures are C03's business (skipped, counted)"]
POOLS = gen.ALL_KEY_POOLS + [gen.DIGIT_FIRST, gen.CASELESS_KEYS]
EXCLUDED_BY_FINDING = {"pool-keys:" + k: v for k, v in gen.excluded_counts(POOLS, allow_digit_first=True).items()}
FLOORS = {"needs-renaming": 0.3}


@st.composite
def cases(draw, tier="quick"):
    keys = draw(gen.key_universe(POOLS, min_size=2, max_size=12, allow_digit_first=True))
    for k in draw(gen.composed_keys()):
        if gen.fold(k) not in {gen.fold(x) for x in keys} and not gen.class_name_collision(keys + [k]) and not gen.digit_word_collision(keys + [k]):
            keys.append(k)
    kinds = []
    for k in keys:
        digit = gen.label_of(k, True)[:1].isdigit() or gen.label_of(k, False)[:1].isdigit()
        # digit-first keys may hold objects too since F20 / F22 (class names get a capitalised digit word)
        kinds.append(draw(st.sampled_from(["int", "str", "null", "list", "intstr", "boolstr", "obj"] if digit else
                                          ["int", "str", "null", "list", "obj", "obj", "objlist", "intstr", "floatstr", "boolstr"])))
    opts = {"fw": draw(st.sampled_from(gen.FRAMEWORKS)), "unicode": draw(st.booleans()), "meta": draw(st.booleans()),
            "nested": draw(st.booleans()), "pic": draw(st.booleans())}
    if not opts["unicode"] and any(gen.nfkc_unstable(k) for k in keys):
        opts["unicode"] = True      # finding nfkc-unstable-key-without-transliteration, excluded by construction
    if any(k in gen.CASELESS_KEYS for k in keys):
        opts["unicode"] = True      # caseless scripts are in the domain through their ASCII transliteration only
    # keys missing from a second sample become optional fields (None / factory defaults)
    optional = [draw(st.integers(0, 3)) == 0 for _ in keys]
    return {"keys": keys, "kinds": kinds, "optional": optional, "opts": opts}


def build_object(case):
    keys, kinds = case["keys"], case["kinds"]
    obj = {}
    for i, (k, kind) in enumerate(zip(keys, kinds)):
        inner = {keys[(i + 1) % len(keys)]: i, "zz%d" % i: "v"}
        obj[k] = {"int": i, "str": "s%d" % i, "null": None, "list": [i], "obj": inner, "objlist": [inner],
                  "intstr": "1%d" % i, "floatstr": "%d.5" % i, "boolstr": "true"}[kind]
    return obj


def build_samples(case):
    obj = build_object(case)
    opt = case.get("optional") or []
    drop = {k for k, o in zip(case["keys"], opt) if o}
    if not drop:
        return [obj]
    return [obj, {k: v for k, v in obj.items() if k not in drop}]


def valid(case):
    try:
        keys, kinds = case["keys"], case["kinds"]
        if len(keys) != len(kinds) or len(keys) < 1:
            return False
        if "optional" in case and not (isinstance(case["optional"], list) and len(case["optional"]) == len(keys)
                                       and all(isinstance(x, bool) for x in case["optional"])):
            return False
        if len({gen.fold(k) for k in keys}) != len(keys) or gen.class_name_collision(keys) or gen.digit_word_collision(keys):
            return False
        for k, kind in zip(keys, kinds):
            if gen.key_status(k, allow_digit_first=True) is not None:
                return False
            digit = gen.label_of(k, True)[:1].isdigit() or gen.label_of(k, False)[:1].isdigit()
            if kind not in ("int", "str", "null", "list", "obj", "objlist", "intstr", "floatstr", "boolstr") or (digit and kind == "objlist"):
                return False
        if not case["opts"].get("unicode", True) and any(gen.nfkc_unstable(k) or k in gen.CASELESS_KEYS for k in keys):
            return False
        obj = build_object(case)
        for o in c01._objects(obj):
            f = [gen.fold(k) for k in o]
            if len(set(f)) != len(f):
                return False
        return c01.opts_valid(case["opts"]) and case["opts"].get("fw") in pl.FRAMEWORKS
    except Exception:  # noqa: BLE001
        return False


def check(case):
    r = R()
    opts = pl.norm_opts(case["opts"])
    fw = opts["fw"]
    obj = build_object(case)
    r.label(*c03.key_labels(case["keys"]))
    r.label("fw:" + fw, "unicode:%s" % opts["unicode"])
    if any(gen.label_of(k, True)[:1].isdigit() for k in case["keys"]):
        r.label("digit-first-key")
    ok, b = unowned(r, pl.build, build_samples(case), opts)
    if not ok:
        return r
    src, nested = codeview.render_owned(r, b, opts)     # naming happens here: a crash on an in-domain key is C11's
    if src is None:
        return r
    # keys are in the stated domain by construction (findings excluded), values are trivial: a module that does not load
    # here has lost its keys, which is this property's business too
    v = codeview.load_view(r, b, opts, src, nested, own=True)
    if v is None:
        return r
    root = b.roots[0].type
    cls = v.cls_of[root.index]
    fields = oracle.class_fields(cls, fw)
    names = list(fields)
    for n in names:
        if not n.isidentifier() or keyword.iskeyword(n):
            r.fail("field-name-invalid", f"{n!r}\n{src}")
        if n in v.imported:
            r.fail("field-name-shadows-import", f"{n!r}\n{src}")
    used = {}
    pyd = fw in ("pydantic", "sqlmodel")
    for key, val in obj.items():
        if pyd and val is None:
            continue
        f, n = oracle.field_for_key(fields, key)
        if f is None:
            r.fail("no-field-for-key" if n == 0 else "ambiguous-field-for-key", f"key {key!r}; fields {names}\n{src}")
            continue
        if f.name in used:
            r.fail("field-names-collide", f"{key!r} and {used[f.name]!r} -> {f.name}\n{src}")
            continue
        used[f.name] = key
        if not oracle.name_ok_for_key(f.name, key):
            r.fail("field-name-not-derived-from-key", f"{key!r} -> {f.name}\n{src}")
        if f.name != key:
            r.nontrivial = True
            r.label("needs-renaming")
            if f.has_default:
                r.label("renamed-optional-field")
            if pyd and f.key != key:
                r.fail("alias-not-exact", f"{f.name}: alias {f.key!r} for key {key!r}\n{src}")
            if fw in ("attrs", "dataclasses") and opts["meta"] and f.key != key:
                r.fail("metadata-not-exact", f"{f.name}: metadata {f.key!r} for key {key!r}\n{src}")
    if len(used) != len([k for k, val in obj.items() if not (pyd and val is None)]):
        r.fail("field-count", f"{len(used)} fields for {len(obj)} keys\n{src}")
    if pyd and not r.viol:
        try:
            parsed = cls.parse_obj(obj)
            for fname, key in used.items():
                got = getattr(parsed, fname)
                want = obj[key]
                if isinstance(want, (dict, list)):
                    continue
                if isinstance(want, str) and not isinstance(got, str):
                    # pseudo-typed string: the pydantic field holds the parsed value ("11" -> 11), not the string
                    if got is None:
                        r.fail("parse-does-not-populate-field", f"{fname} (key {key!r}): got None for {want!r}\n{src}")
                    continue
                if got != want or type(got) is not type(want):
                    r.fail("parse-does-not-populate-field", f"{fname} (key {key!r}): got {got!r}, sample value {want!r}\n{src}")
        except Exception as e:  # noqa: BLE001
            r.fail("pydantic-parse:" + type(e).__name__, f"{e}\n{src}")
    cnames = [c.__name__ for c, _, _ in v.ld.classes]
    if len(set(cnames)) != len(cnames):
        r.fail("class-names-not-distinct", f"{cnames}\n{src}")
    for n in cnames:
        if not n.isidentifier() or keyword.iskeyword(n):
            r.fail("class-name-invalid", f"{n!r}\n{src}")
        if n in v.imported:
            r.fail("class-name-shadows-import", f"{n!r}\n{src}")
    return r


def phases(tier):
    n = {"quick": 16 * 1500, "thorough": 16 * 22000}[tier]
    return [dict(name="main", kind="hypothesis", strategy=cases(tier), check=check, examples=n)]
