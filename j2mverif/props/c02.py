"""C02 — inferred types are tight: nothing is admitted that no sample exhibited."""
from hypothesis import strategies as st

from .. import gen, oracle, pipeline as pl
from ..core import R, unowned, input_labels
from . import c01

ID = "C02"
LEVEL = "exploration"
RULE = ("Hypothesis: same sample generator as C01 (plain ASCII keys) x merge policies x dict-key options x string registries; "
        "library pipeline up to the final registry (no code generation). Oracle: values are routed through the final model graph "
        "(over-approximating at unions) and every position is checked for witnesses: optional => some object lacks the key or "
        "holds null; union member / scalar type => a value whose most specific classification is that member (float needs a real "
        "float, a pseudo-type a string first detected as it); element type => an element; Any => an empty or all-null container; "
        "Literal subset of observed strings; plus exact two-sided equality of the string component (pseudo-type / Literal / str) "
        "with an independent reference at every position whose values arrived untainted (no ambiguous object routing above). "
        "Non-trivial: the final graph has a union, an Optional, a non-empty container or a Literal somewhere (something to rule "
        "out) and >= 2 samples or a nested value. distinct = canonical JSON of (samples, options).")
ASSUMPTIONS = ["routing over-approximates: a loose type below an ambiguous union of object-shaped members can be missed",
               "cases whose graph does not admit its own samples are skipped and counted (C01 reports them)",
               "orphan models (registered, unreferenced) receive no values and are not checked"]
FLOORS = {"mixed-kinds-at-position": 0.15, "similar-objects": 0.10}


@st.composite
def cases(draw, tier="quick"):
    universe = draw(gen.key_universe(gen.ASCII_KEY_POOLS, min_size=1, max_size=7))
    big = tier == "thorough"
    samples = draw(gen.sample_lists(universe, max_samples=8 if big else 5, max_leaves=14 if big else 10))
    opts = draw(gen.option_sets(universe, frameworks=["base"], layouts=[False]))
    for k in ("fw", "nested", "pic", "meta", "unicode", "max_literals"):
        opts.pop(k, None)
    return {"samples": samples, "opts": opts}


def valid(case):
    c = dict(case)
    c["opts"] = dict(case.get("opts") or {}, fw="base")
    return c01.valid(c)


def graph_has_structure(reg):
    from ..pipeline import dt
    for m in reg.models:
        for t in m.type.values():
            if isinstance(t, (dt.DOptional, dt.DUnion, dt.StringLiteral)):
                return True
            if isinstance(t, (dt.DList, dt.DDict)) and t.type is not dt.Unknown:
                return True
    return False


def check(case):
    r = R()
    samples, opts = case["samples"], pl.norm_opts(case["opts"])
    labs = input_labels(samples)
    r.label(*labs)
    ok, b = unowned(r, pl.build, samples, opts)
    if not ok:
        return r
    root = b.roots[0].type
    try:
        routing = oracle.Routing(b.reg, [(root, samples)])
        if routing.unsound or not all(oracle.model_accepts(s, root) for s in samples):
            r.skip = "skipped-unsound"
            return r
        viol, stats = oracle.tightness_violations(routing, b.reg, opts["sreg"])
    except oracle.MalformedIR as e:
        r.fail("ir-malformed", e)
        return r
    except RecursionError:
        r.skip = "recursion"
        return r
    r.counters.update(stats)
    r.nontrivial = graph_has_structure(b.reg) and bool(labs & {"multi-sample", "nested"})
    seen = set()
    for clause, detail in viol:
        if clause not in seen:
            seen.add(clause)
            r.fail(clause, detail + "\n" + "\n".join(f"{m}: {m.type}" for m in b.reg.models))
    return r


def phases(tier):
    n = {"quick": 16 * 2000, "thorough": 16 * 50000}[tier]
    return [dict(name="main", kind="hypothesis", strategy=cases(tier), check=check, examples=n)]
