"""C13 — dict-field options turn objects into mappings, and only those."""
import re

from hypothesis import strategies as st

from .. import gen, oracle, pipeline as pl
from ..core import R, unowned, input_labels
from ..pipeline import dt
from . import c01

ID = "C13"
LEVEL = "exploration"
RULE = ("Hypothesis: C01's sample shapes with the dict-like booster (objects whose keys all / partially match the regex pool, the "
        "same key set under listed and unlisted fields, inside lists) x lists of field names from the key universe x lists of "
        "regexes, in library form (re.match, unanchored) and in command-line form (patterns passed through Cli.set_args, which "
        "anchors them). Reference: every object of the samples is classified mapping iff it is empty, or is the direct value of a "
        "listed field of a model, or all its keys match one regex; top-level samples are models. Oracle: walking samples against "
        "the final graph, every unambiguously routed object must be admitted by a Dict[str, T] member (mapping; T admits every "
        "value) or by a model member (model) of the type at its position; every registered, reachable model must be backed by at "
        "least one model-classified object whose keys it contains. Non-trivial: options non-empty, some object is a mapping by "
        "a rule other than emptiness and some non-empty object is a model other than the samples themselves. "
        "distinct = canonical JSON of (samples, options).")
ASSUMPTIONS = ["keys with a trailing newline are not generated ($ vs \\Z)", "regexes have no top-level alternation",
               "objects below an ambiguous routing point (two object-shaped union members admit them) are skipped and counted"]
FLOORS = {"has-dict-options": 0.35}


@st.composite
def cases(draw, tier="quick"):
    universe = draw(gen.key_universe(gen.ASCII_KEY_POOLS, min_size=2, max_size=6))
    extra = ["n_1", "n_2", "n_30", "n_1x", "m_2", "1", "22", "usd$", "usd$_old", "^x", "a^x", "x$", "N_1", "N_2", "A", "B"]
    uni2 = universe + [k for k in extra if draw(st.integers(0, 2)) == 0]
    big = tier == "thorough"
    samples = draw(st.one_of(gen.dictlike_samples(universe), gen.dictlike_samples(universe),
                             gen.sample_lists(uni2, max_samples=6 if big else 4, max_leaves=12 if big else 8)))
    if draw(st.booleans()):
        samples = samples + draw(gen.dictlike_samples(universe))
    if draw(st.integers(0, 5)) == 0:
        # keys that match a pattern only when its flags are honoured (C13 works on the inferred types, no names are derived)
        samples = samples + [{universe[0]: {draw(st.sampled_from(["N_1", "N_2", "A", "B"])): draw(gen.scalars()), "n_2": 1}}]
    if draw(st.integers(0, 7)) == 0:
        # a mapping whose values compare equal across types (1, 1.0, True): T has to admit every one of them
        vals = draw(st.permutations([1, 1.0, True, 0, 0.0]))[:draw(st.integers(2, 4))]
        samples = samples + [{universe[0]: {"n_%d" % (i + 1): v for i, v in enumerate(vals)}}]
    dkr = draw(st.lists(st.sampled_from(gen.REGEX_POOL + [universe[0], r"[a-z]", r"n_\d", r"\w+\$", r"usd\$", r"\^x", r"\^?x\$?", r"x\$"]),
                        max_size=3, unique=True))
    dkf = draw(st.lists(st.sampled_from(uni2), max_size=3, unique=True))
    opts = {"dkr": dkr, "dkf": dkf, "merge": draw(gen.merge_policies()), "sreg": draw(gen.sregs()),
            "cli_form": draw(st.booleans()), "ordered_dict": draw(st.sampled_from([False, False, False, True])),
            "ignorecase": draw(st.sampled_from([False, False, False, True]))}
    return {"samples": samples, "opts": opts}


def valid(case):
    o = dict(case.get("opts") or {})
    cf = o.pop("cli_form", False)
    od = o.pop("ordered_dict", False)
    ic = o.pop("ignorecase", False)
    if not isinstance(cf, bool) or not isinstance(od, bool) or not isinstance(ic, bool):
        return False
    for x in o.get("dkr") or []:
        if "|" in x:
            return False
    # digit-first keys are allowed here (no code is generated), other key rules as in C01
    try:
        from ..findings import all_keys
        for s in case["samples"]:
            if not isinstance(s, dict):
                return False
            for k in all_keys(s):
                if not isinstance(k, str) or k.endswith("\n"):
                    return False
        return isinstance(case["samples"], list) and bool(case["samples"]) and c01.opts_valid(o) and c01._floats_ok(case["samples"])
    except Exception:  # noqa: BLE001
        return False


def compiled(opts):
    """(patterns as the generator will receive them, reference matcher)"""
    if opts.get("cli_form"):
        from json_to_models.cli import Cli
        cli = Cli()
        cli.set_args([], "flat", "base", None, [], list(opts["dkr"]), list(opts["dkf"]), False, None)
        pats = list(cli.dict_keys_regex)
        fields = list(cli.dict_keys_fields)
        ref = [lambda k, r=r: re.fullmatch(r, k) is not None for r in opts["dkr"]]
    elif opts.get("ignorecase"):
        # library form with precompiled, flagged patterns ("List of RegExpressions (compiled or not)")
        pats = [re.compile(r, re.IGNORECASE) for r in opts["dkr"]]
        fields = list(opts["dkf"])
        ref = [lambda k, r=r: re.match(r, k, re.IGNORECASE) is not None for r in opts["dkr"]]
    else:
        pats = list(opts["dkr"])
        fields = list(opts["dkf"])
        ref = [lambda k, r=r: re.match(r, k) is not None for r in opts["dkr"]]
    return pats, fields, ref


def classify(obj, direct_listed, ref):
    if not obj:
        return "mapping", "empty"
    if direct_listed:
        return "mapping", "field"
    for m in ref:
        if all(m(k) for k in obj):
            return "mapping", "regex"
    return "model", None


def check(case):
    r = R()
    samples = case["samples"]
    o = dict(case["opts"])
    r.label(*input_labels(samples))
    if o.get("dkr") or o.get("dkf"):
        r.label("has-dict-options")
    r.label("cli-form" if o.get("cli_form") else "library-form")

    def build():
        pats, fields, ref = compiled(o)
        sreg = pl.make_sreg(pl.norm_opts(o)["sreg"])
        g = pl.MetadataGenerator(str_types_registry=sreg, dict_keys_regex=pats or None, dict_keys_fields=fields or None)
        reg = pl.ModelRegistry(*pl.make_cmps(o.get("merge")))
        data = samples
        if o.get("ordered_dict"):
            # objects as a dict subclass, as json.load(..., object_pairs_hook=OrderedDict) or a YAML loader deliver them
            import collections

            def od(v):
                if isinstance(v, dict):
                    return collections.OrderedDict((k, od(x)) for k, x in v.items())
                if isinstance(v, list):
                    return [od(x) for x in v]
                return v
            data = [od(x) for x in samples]
            r.label("objects-as-OrderedDict")
        ptr = reg.process_meta_data(g.generate(*data), model_name="Root")
        reg.merge_models(generator=g)
        return reg, ptr, ref, set(o["dkf"])

    ok, res = unowned(r, build)
    if not ok:
        return r
    reg, rootptr, ref, dkf = res
    root = rootptr.type
    stats = {"mapping-by-rule": 0, "model-objects": 0, "tainted": 0, "checked": 0}
    model_backing = {}       # model index -> True if a model-classified object was admitted
    seen = set()

    def visit_obj(obj, t, taint, direct_listed, where):
        """obj is a dict observed at a position of type t"""
        kind, why = classify(obj, direct_listed, ref)
        members = t.type if isinstance(t, dt.DOptional) else t
        members = list(members.types) if isinstance(members, dt.DUnion) else [members]
        dms = [x for x in members if isinstance(x, dt.DDict) and oracle.inhabits(obj, x)]
        mms = [x for x in members if isinstance(x, dt.ModelPtr) and oracle.inhabits(obj, x)]
        if kind == "mapping" and why != "empty":
            stats["mapping-by-rule"] += 1
        if kind == "model":
            stats["model-objects"] += 1
        if taint:
            stats["tainted"] += 1
        else:
            stats["checked"] += 1
            if kind == "mapping" and not dms:
                r.fail("mapping-typed-as-model" if mms else "mapping-not-admitted",
                       f"{where}: {oracle.short(obj)} classified mapping ({why}) but type is {t}")
            if kind == "model" and not mms:
                r.fail("model-typed-as-mapping" if dms else "model-not-admitted",
                       f"{where}: {oracle.short(obj)} classified model but type is {t}")
        amb = taint or (len(dms) + len(mms) > 1)
        for x in mms:
            if kind == "model":
                model_backing[x.type.index] = True
            visit_model(obj, x.type, amb, where)
        for x in dms:
            for k, v in obj.items():
                visit(v, x.type, amb, False, where + "{}")

    def visit(v, t, taint, direct_listed, where):
        if isinstance(v, dict):
            visit_obj(v, t, taint, direct_listed, where)
        elif isinstance(v, list):
            inner = t.type if isinstance(t, dt.DOptional) else t
            members = list(inner.types) if isinstance(inner, dt.DUnion) else [inner]
            for x in members:
                if isinstance(x, dt.DList):
                    for e in v:
                        visit(e, x.type, taint, False, where + "[]")

    def visit_model(obj, model, taint, where):
        key = (model.index, id(obj), taint)
        if key in seen:
            return
        seen.add(key)
        for k, v in obj.items():
            if k in model.type:
                visit(v, model.type[k], taint, k in dkf, f"{where}.{k}")

    try:
        for i, s in enumerate(samples):
            if not oracle.model_accepts(s, root):
                r.skip = "skipped-unsound"
                return r
            model_backing[root.index] = True
            visit_model(s, root, False, "Root")
    except oracle.MalformedIR as e:
        r.fail("ir-malformed", e)
        return r
    except RecursionError:
        r.skip = "recursion"
        return r
    reach = pl.reachable_models(reg)
    for m in reg.models:
        if m.index in reach and not model_backing.get(m.index) and stats["tainted"] == 0:
            r.fail("class-for-mapping-object", f"{m} {sorted(m.type)} is backed by no model-classified object\n" +
                   "\n".join(f"{mm}: {mm.type}" for mm in reg.models))
    r.counters.update({"objects-" + k: v for k, v in stats.items()})
    r.nontrivial = bool((o.get("dkr") or o.get("dkf")) and stats["mapping-by-rule"] and stats["model-objects"])
    return r


def phases(tier):
    n = {"quick": 16 * 1600, "thorough": 16 * 40000}[tier]
    return [dict(name="main", kind="hypothesis", strategy=cases(tier), check=check, examples=n)]
