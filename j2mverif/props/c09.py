"""C09 — string pseudo-types are detected soundly and convert losslessly."""
import ast
import contextlib
import io
import itertools
import json
import math
import os
import sys
import tempfile

from hypothesis import strategies as st

from .. import gen, oracle, pipeline as pl
from ..core import R, owned, exc_sig
from ..pipeline import dt

ID = "C09"
LEVEL = "exploration"
RULE = ("Hypothesis over a structured string grammar (signs, exponents, underscores, surrounding whitespace, nan/inf, non-ASCII digits, "
        "case variants of true/false, ISO date/time/datetime fragments and near misses, week dates, offsets, overflowing digit runs, "
        "plain and tricky-character strings) x ordered subsets of the six pseudo-types as registry. Phases: detect (one string: the "
        "inferred type is the first registered type, in registration order, whose independent acceptor accepts it, else a Literal "
        "of exactly that string / str when >= 20 chars; never an exception); resolve (2-6 strings in one field: the type admits "
        "every string and its string component equals the independent reference; direct resolve() of every subset yields a single "
        "type only if it accepts every corpus string any member accepts); roundtrip (parse -> render -> parse gives an equal value, "
        "NaN equal to itself, for every type accepting the string); disabled (in-process CLI with --datetime x "
        "--disable-str-serializable-types by class or actual-type name: inferred annotation equals the reference computed on the "
        "registry without the disabled types, no import/annotation names a disabled class). thorough adds all 1957 ordered "
        "registries x a 400-string corpus. Non-trivial: detect/roundtrip: >= 1 pseudo-type accepts the string; resolve: >= 2 "
        "distinct pseudo-types detected among the strings; disabled: a disabled type would have accepted some string. "
        "distinct = canonical JSON of the case.")
ASSUMPTIONS = ["acceptors: Python int()/float(), case-folded true/false; for the three ISO types the type's own parser "
               "(the property is about 'that type's parser'), ValueError/OverflowError = reject",
               "UnknownTimezoneWarning and similar warnings are silenced, not failed"]
EXHAUSTIVE = {"quick": False, "thorough": False}
EXHAUSTIVE_NOTE = "thorough: phase 'all-registries' enumerates all 1957 ordered subsets of the six pseudo-types x a fixed 400-string corpus"
FLOORS = {}

NAMES = list(pl.PSEUDO_NAMES)


def indep_accepts(name, s):
    if name == "IntString":
        try:
            int(s)
            return True
        except ValueError:
            return False
    if name == "FloatString":
        try:
            float(s)
            return True
        except (ValueError, OverflowError):
            return False
    if name == "BooleanString":
        return s.lower() in ("true", "false")
    return oracle.accepts(pl.PSEUDO[name], s)


def detect_indep(s, names):
    for n in names:
        if indep_accepts(n, s):
            return n
    return None


def strings():
    return st.one_of(gen.pseudo_strings(), gen.pseudo_strings(), gen.plain_strings(),
                     st.text(alphabet=st.sampled_from(list("0123456789-+:.TZeE _/,WnaifNAIFtruefalsTRUEFALS \t\n٣１")), max_size=24))


def registries():
    return st.one_of(st.just(NAMES[:3]), st.just(list(NAMES)), st.lists(st.sampled_from(NAMES), max_size=6, unique=True))


def infer_field(strs, names, shape="samples"):
    """the strings at one position: one per sample, or all in one list / one mapping of one sample"""
    sreg = pl.make_sreg(names)
    if shape == "samples":
        g = pl.MetadataGenerator(str_types_registry=sreg)
        return g.generate(*[{"f": s} for s in strs])["f"]
    if shape == "list":
        g = pl.MetadataGenerator(str_types_registry=sreg)
        t = g.generate({"f": list(strs)})["f"]
    else:
        g = pl.MetadataGenerator(str_types_registry=sreg, dict_keys_fields=["f"])
        t = g.generate({"f": {"k%d" % i: s for i, s in enumerate(strs)}})["f"]
    if not isinstance(t, (dt.DList, dt.DDict)):
        raise oracle.MalformedIR(f"container expected, got {t}")
    return t.type


# --- detect -------------------------------------------------------------------------------------------

def check_detect(case):
    r = R()
    s, names = case["s"], case["sreg"]
    exp = detect_indep(s, names)
    r.nontrivial = any(indep_accepts(n, s) for n in NAMES)
    r.label("registry-size:%d" % len(names))
    if exp:
        r.label("detected:" + exp)
    ok, t = owned(r, "detect", infer_field, [s], names)
    if not ok:
        return r
    if exp is not None:
        if t is not pl.PSEUDO[exp]:
            r.fail("detected-type-differs", f"{s!r} with registry {names}: got {t}, expected {exp}")
    else:
        if len(s) >= 20:
            want = str
            okk = t is str
        else:
            okk = isinstance(t, dt.StringLiteral) and not t.overflowed and set(t.literals) == {s}
        if not okk:
            r.fail("plain-string-not-literal", f"{s!r} with registry {names}: got {t}")
    return r


# --- resolve ------------------------------------------------------------------------------------------

def check_resolve(case):
    r = R()
    strs, names = case["strings"], case["sreg"]
    det = {detect_indep(s, names) for s in strs} - {None}
    r.nontrivial = len(det) >= 2
    r.label("pseudo-kinds:%d" % len(det))
    shape = case.get("shape", "samples")
    r.label("shape:" + shape)
    ok, t = owned(r, "resolve", infer_field, strs, names, shape)
    if not ok:
        return r
    try:
        for s in strs:
            if not oracle.inhabits(s, t):
                r.fail("resolved-type-rejects-string", f"{s!r} not in {t} (strings {strs}, registry {names})")
                break
    except oracle.MalformedIR as e:
        r.fail("ir-malformed", e)
        return r
    members = list(t.types) if isinstance(t, dt.DUnion) else [t]
    got = {oracle.canon_str_member(x) for x in members}
    if None in got:
        r.fail("non-string-member", f"{t}")
        return r
    exp = strref_indep(strs, names)
    if got != exp:
        r.fail("string-component-differs", f"strings {strs} registry {names}: got {sorted(map(repr, got))}, expected {sorted(map(repr, exp))}")
    return r


def strref_indep(S, names):
    det = {s: detect_indep(s, names) for s in set(S)}
    P = {d for d in det.values() if d}
    plain = {s for s, d in det.items() if d is None}
    out = set()
    pseudo = None
    if P:
        R_ = set(P)
        if "IntString" in R_ and "FloatString" in R_:
            R_.discard("IntString")
        pseudo = next(iter(R_)) if len(R_) == 1 else "str"
        out.add(pseudo)
    if plain:
        if pseudo == "str" or len(plain) > 15 or any(len(s) >= 20 for s in plain):
            return {"str"}
        out.add(("Lit", tuple(sorted(plain))))
    if pseudo == "str":
        return {"str"}
    return out


CORPUS = None


def corpus():
    global CORPUS
    if CORPUS is None:
        CORPUS = sorted(set(gen.INT_STRS + gen.FLOAT_STRS + gen.BOOL_STRS + gen.DATE_STRS + gen.TIME_STRS + gen.DATETIME_STRS
                            + gen.PLAIN_WORDS + gen.OVERFLOW_STRS))
    return CORPUS


def check_resolve_api(case):
    r = R()
    names, subset = case["sreg"], case["subset"]
    r.nontrivial = len(subset) >= 2
    sreg = pl.make_sreg(names)
    ok, res = owned(r, "resolve-api", lambda: list(sreg.resolve(*[pl.PSEUDO[n] for n in subset])))
    if not ok:
        return r
    if not res:
        r.fail("resolve-returns-nothing", f"{subset} in {names}")
        return r
    for x in res:
        if x not in [pl.PSEUDO[n] for n in subset]:
            r.fail("resolve-invents-type", f"{x} for {subset}")
    if len(res) == 1:
        t = res[0]
        for s in corpus() + case.get("extra", []):
            if any(oracle.accepts(pl.PSEUDO[n], s) for n in subset) and not oracle.accepts(t, s):
                r.fail("single-type-does-not-cover", f"resolve({subset}) = {t.__name__} rejects {s!r} accepted by a member")
                break
    return r


# --- roundtrip ----------------------------------------------------------------------------------------

def same_value(a, b):
    if isinstance(a, float) and isinstance(b, float) and math.isnan(a) and math.isnan(b):
        return True
    return type(a) is type(b) and a == b


def documented_value(n, s):
    """the value the class docstrings / Python semantics promise for an accepted string"""
    import dateutil.parser
    if n == "IntString":
        return int(s)
    if n == "FloatString":
        return float(s)
    if n == "BooleanString":
        return s.lower() == "true"
    if n == "IsoDatetimeString":
        return dateutil.parser.isoparse(s)
    if n == "IsoDateString":
        return dateutil.parser.isoparse(s).date()
    return None


def check_roundtrip(case):
    r = R()
    s = case["s"]
    for n in NAMES:
        T = pl.PSEUDO[n]
        try:
            v = T.to_internal_value(s)
        except (ValueError, OverflowError):
            continue
        except Exception as e:  # noqa: BLE001
            t, where = exc_sig(e)
            r.fail(f"parser-raises:{n}:{t}", f"{s!r}: {e}")
            continue
        r.nontrivial = True
        r.label("accepted-by:" + n)
        try:
            doc = documented_value(n, s)
        except Exception:  # noqa: BLE001
            doc = None
        if doc is not None and not (doc == v or (isinstance(doc, float) and math.isnan(doc) and math.isnan(v))):
            r.fail("value-differs-from-documented-parser:" + n, f"{s!r}: {v!r}, documented parser gives {doc!r}")
        try:
            rep = v.to_representation()
            if not isinstance(rep, str):
                r.fail("representation-not-str:" + n, f"{s!r} -> {rep!r}")
                continue
            v2 = T.to_internal_value(rep)
        except Exception as e:  # noqa: BLE001
            r.fail(f"roundtrip-raises:{n}:{type(e).__name__}", f"{s!r} -> {v!r}: {e}")
            continue
        if not same_value(v, v2):
            r.fail("roundtrip-differs:" + n, f"{s!r} -> {v!r} -> {rep!r} -> {v2!r}")
    return r


# --- disabled (CLI, in-process) -------------------------------------------------------------------------

ACTUAL = {"IntString": "int", "FloatString": "float", "BooleanString": "bool", "IsoDateString": "date",
          "IsoTimeString": "time", "IsoDatetimeString": "datetime"}


@contextlib.contextmanager
def global_registry_restored():
    from json_to_models.dynamic_typing import registry
    types, replaces = list(registry.types), set(registry.replaces)
    try:
        yield registry
    finally:
        registry.types[:] = types
        registry.replaces.clear()
        registry.replaces.update(replaces)


def run_cli(argv, cli=None):
    from json_to_models.cli import Cli
    old = sys.argv
    sys.argv = ["json2models"] + argv
    try:
        cli = cli or Cli()
        cli.parse_args(argv)
        return cli.run()
    finally:
        sys.argv = old


def check_disabled(case):
    r = R()
    strs, fw, datetime_on, disabled = case["strings"], case["fw"], case["datetime"], case["disabled"]
    # the date/time classes live in the process-global registry once any in-process run has enabled them
    active = NAMES[:3] + (NAMES[3:] if (datetime_on or case.get("prior_datetime_run")) else [])
    removed = {n for n in active if n in disabled or ACTUAL[n] in disabled}
    remaining = [n for n in active if n not in removed]
    r.nontrivial = any(oracle.accepts(pl.PSEUDO[n], s) for n in removed for s in strs)
    r.label("fw:" + fw, "datetime:%s" % datetime_on)
    with tempfile.TemporaryDirectory(prefix="j2mv_c09_") as d:
        path = os.path.join(d, "data.json")
        with open(path, "w", encoding="utf-8") as f:
            json.dump([{"f": s} for s in strs], f)
        argv = ["-m", "Root", path, "-f", fw]
        if datetime_on:
            argv.append("--datetime")
        argv += ["--disable-str-serializable-types"] + list(disabled)
        with global_registry_restored():
            with contextlib.redirect_stderr(io.StringIO()):
                cli_obj = None
                if case.get("prior_datetime_run"):
                    # an earlier in-process run with --datetime has already registered the date/time classes once
                    r.label("after-prior-datetime-run")
                    if case.get("same_cli_object"):
                        from json_to_models.cli import Cli
                        cli_obj = Cli()
                        r.label("same-cli-object")
                    try:
                        run_cli(["-m", "Prior", path, "--datetime"], cli_obj)
                    except Exception:  # noqa: BLE001
                        pass
                ok, out = owned(r, "cli", run_cli, argv, cli_obj)
    if not ok:
        return r
    try:
        tree = ast.parse(out)
    except SyntaxError as e:
        r.skip = "unparsable-output"
        return r
    ann = None
    for node in ast.walk(tree):
        if isinstance(node, ast.AnnAssign) and isinstance(node.target, ast.Name) and node.target.id == "f":
            ann = node.annotation
    if ann is None:
        r.fail("field-missing", out)
        return r
    names_in_ann = {n.id for n in ast.walk(ann) if isinstance(n, ast.Name)}
    imported = oracle.module_imported_names(tree)
    # reference
    exp = strref_indep(strs, remaining)
    exp_names = set()
    for c in exp:
        if c == "str":
            exp_names.add("str")
        elif isinstance(c, tuple):
            exp_names.add("Literal" if (fw != "attrs" and len(c[1]) < 10) else "str")
        else:
            exp_names.add(ACTUAL[c] if fw in ("pydantic", "sqlmodel") else c)
    got_names = names_in_ann - {"Union", "Optional"}
    if got_names != exp_names:
        r.fail("annotation-differs-from-reference", f"strings {strs} datetime={datetime_on} disabled={disabled} fw={fw}: "
               f"annotation {ast.unparse(ann)}, expected members {sorted(exp_names)}\n{out}")
    if fw not in ("pydantic", "sqlmodel"):
        for n in removed:
            if n in imported or n in names_in_ann:
                r.fail("disabled-type-appears", f"{n} in output with disabled={disabled}\n{out}")
    return r


# --- strategies ---------------------------------------------------------------------------------------

def detect_cases():
    return st.fixed_dictionaries({"s": strings(), "sreg": registries()})


def resolve_cases():
    return st.fixed_dictionaries({"strings": st.lists(strings(), min_size=2, max_size=6), "sreg": registries(),
                                  "shape": st.sampled_from(["samples", "samples", "list", "list", "dict"])})


@st.composite
def resolve_api_cases(draw):
    names = draw(st.lists(st.sampled_from(NAMES), min_size=1, max_size=6, unique=True))
    subset = draw(st.lists(st.sampled_from(names), min_size=1, max_size=len(names), unique=True))
    return {"sreg": names, "subset": subset, "extra": draw(st.lists(strings(), max_size=4))}


def roundtrip_cases():
    return st.fixed_dictionaries({"s": strings()})


@st.composite
def disabled_cases(draw):
    pool = NAMES + list(ACTUAL.values())
    return {"strings": draw(st.lists(strings().filter(lambda s: "\x00" not in s), min_size=1, max_size=4)),
            "fw": draw(st.sampled_from(gen.FRAMEWORKS)),
            "datetime": draw(st.booleans()),
            "disabled": draw(st.lists(st.sampled_from(pool), min_size=0, max_size=4, unique=True)),
            "prior_datetime_run": draw(st.sampled_from([False, False, True])), "same_cli_object": draw(st.booleans())}


def all_registry_cases(tier):
    out = []
    corp = corpus()[:400]
    for n in range(0, 7):
        for perm in itertools.permutations(NAMES, n):
            out.append({"sreg": list(perm), "corpus": True})
    return out


def check_all_registries(case):
    r = R()
    names = case["sreg"]
    r.nontrivial = len(names) >= 2
    for s in corpus()[:400]:
        rr = check_detect({"s": s, "sreg": names})
        for c, d in rr.viol:
            r.fail(c, d)
        if rr.viol:
            break
    return r


def valid(case):
    try:
        for k in ("sreg", "subset", "disabled"):
            if k in case and not (isinstance(case[k], list) and len(set(case[k])) == len(case[k])):
                return False
        if "sreg" in case and not all(n in pl.PSEUDO for n in case["sreg"]):
            return False
        if "subset" in case and not (case["subset"] and all(n in case["sreg"] for n in case["subset"])):
            return False
        if "disabled" in case and not all(n in NAMES + list(ACTUAL.values()) for n in case["disabled"]):
            return False
        if "fw" in case and case["fw"] not in pl.FRAMEWORKS:
            return False
        if "s" in case and not isinstance(case["s"], str):
            return False
        if "strings" in case and not (isinstance(case["strings"], list) and case["strings"] and all(isinstance(s, str) and "\x00" not in s for s in case["strings"])):
            return False
        if "datetime" in case and not isinstance(case["datetime"], bool):
            return False
        if case.get("shape", "samples") not in ("samples", "list", "dict"):
            return False
        if not isinstance(case.get("prior_datetime_run", False), bool):
            return False
        return True
    except Exception:  # noqa: BLE001
        return False


def phases(tier):
    q = tier == "quick"
    ph = [dict(name="detect", kind="hypothesis", strategy=detect_cases(), check=check_detect, examples=16 * (4000 if q else 60000)),
          dict(name="resolve", kind="hypothesis", strategy=resolve_cases(), check=check_resolve, examples=16 * (2000 if q else 25000)),
          dict(name="resolve-api", kind="hypothesis", strategy=resolve_api_cases(), check=check_resolve_api, examples=16 * (150 if q else 1000)),
          dict(name="roundtrip", kind="hypothesis", strategy=roundtrip_cases(), check=check_roundtrip, examples=16 * (3000 if q else 50000)),
          dict(name="disabled", kind="hypothesis", strategy=disabled_cases(), check=check_disabled, examples=16 * (400 if q else 5000))]
    if not q:
        ph.append(dict(name="all-registries", kind="enumerate", cases=all_registry_cases, check=check_all_registries))
    return ph
