"""C03 — emitted module is loadable Python with every reference resolvable."""
import datetime
import inspect
import typing

from hypothesis import strategies as st

from .. import gen, oracle, codeview, pipeline as pl
from ..core import R, owned, input_labels
from ..pipeline import dt
from . import c01

ID = "C03"
LEVEL = "exploration"
RULE = ("Hypothesis: key universes from the full pools (snake/camel/Pascal/kebab, inner digits, ~150 API words, Python keywords, "
        "builtin names, names emitted modules import, punctuation-bearing keys, non-ASCII letters of cased scripts; pairwise "
        "fold-distinct, label non-empty, not digit/underscore-initial, not framework-reserved) -> sample lists (C01's shapes) x "
        "{base, pydantic, sqlmodel(stub), attrs, dataclasses} x {flat, nested if every non-root model has one referencing class} x "
        "converters/meta/unicode/literal options x user-given root model names (some change on sanitising); optionally one or two further "
        "root models over the same keys, or a further flat root model added to the registry after naming under a name a nested model "
        "already has (merged and named again); "
        "plus a sweep of every pool key alone as scalar field and as nested-object field x 5 frameworks x 2 unicode settings. "
        "Oracle: compile+exec with only the module's own imports; one class per registered model, names distinct; "
        "get_type_hints resolves every annotation with enclosing class namespaces and every class it mentions is a builtin, a "
        "datetime type, a string pseudo-type or one of the module's own classes; AST: class/field names are identifiers, not "
        "keywords, unique in scope, not equal to a name the module imports. Non-trivial: some key is not already a plain "
        "lower-case identifier. distinct = canonical JSON of (samples, options).")
ASSUMPTIONS = ["sqlmodel output is only loaded against a pydantic.v1-based stub",
               "nested layout is rendered only for tree-shaped graphs (the property's own precondition), else flat"]
POOLS = gen.ALL_KEY_POOLS
EXCLUDED_BY_FINDING = None
FLOORS = {"key:non-identifier": 0.2}

OK_CLASSES = {int, float, bool, str, datetime.date, datetime.time, datetime.datetime, type(None)}


def excluded():
    global EXCLUDED_BY_FINDING
    if EXCLUDED_BY_FINDING is None:
        EXCLUDED_BY_FINDING = {"pool-keys:" + k: v for k, v in gen.excluded_counts(POOLS).items()}
    return EXCLUDED_BY_FINDING


excluded()


def key_labels(keys):
    labs = set()
    for k in keys:
        if not (k.isidentifier() and k.islower() and k.isascii()):
            labs.add("key:non-identifier")
        if not k.isascii():
            labs.add("key:non-ascii")
        import keyword
        if keyword.iskeyword(k):
            labs.add("key:keyword")
        if k in gen.IMPORTED_NAMES or k in gen.BUILTIN_NAMES:
            labs.add("key:builtin-or-imported-name")
        if any(not (c.isalnum() or c == "_") for c in k):
            labs.add("key:punctuation")
    return labs


def check(case):
    r = R()
    samples, opts = case["samples"], pl.norm_opts(case["opts"])
    from ..findings import all_keys
    keys = set(k for s in samples for k in all_keys(s))
    kl = key_labels(keys)
    r.label(*kl)
    r.label(*input_labels(samples))
    r.label("fw:" + opts["fw"])
    r.nontrivial = "key:non-identifier" in kl
    extra = [tuple(x) for x in case.get("extra_models") or []]
    if extra:
        r.label("several-root-models")
    ok, b = owned(r, "generate", pl.build, samples, opts, "Root", extra)
    if not ok:
        return r
    if extra and any(len({gen.fold(k) for k in m.type}) != len(m.type) for m in b.reg.models):
        # models of different roots were merged and pooled fold-equal keys of unrelated objects: finding folded-equal-keys (K1),
        # kept out of the generated domain like fold-equal keys of one object are (counted as skipped; the finding is replayed)
        r.skip = "excluded:folded-equal-keys-in-one-merged-model"
        return r
    st2 = case.get("second_stage")
    if st2:
        # the registry is used again after its names were generated: a further (flat) root model whose user-given name equals the
        # name a nested model already has; merged and named again, then rendered - still one class per model, names distinct
        r.label("registry-extended-after-naming")

        def extend():
            ptr = b.reg.process_meta_data(b.gen.generate(*st2["samples"]), model_name=st2["name"])
            b.roots.append(ptr)
            b.reg.merge_models(generator=b.gen)
            b.reg.generate_names()
        ok, _ = owned(r, "generate:second-stage", extend)
        if not ok:
            return r
    src, nested = codeview.render_owned(r, b, opts)
    if src is None:
        return r
    r.label("layout:nested" if nested else "layout:flat")
    v = codeview.load_view(r, b, opts, src, nested, own=True)
    if v is None:
        return r
    names = [c.__name__ for c, _, _ in v.ld.classes]
    if len(set(names)) != len(names):
        r.fail("class-names-not-distinct", f"{names}\n{src}")
    own = {c for c, _, _ in v.ld.classes}
    for cls, encl, path in v.ld.classes:
        hints = v.ld.hints[cls]
        for n in cls.__dict__.get("__annotations__", {}):
            if n not in hints:
                r.fail("annotation-unresolved", f"{path}.{n}\n{src}")
                continue
            acc = []
            codeview.annotation_classes(hints[n], acc)
            for kind, t in acc:
                if kind != "class":
                    r.fail("annotation-not-a-type", f"{path}.{n}: {t!r}\n{src}")
                elif t not in own and t not in OK_CLASSES and not (inspect.isclass(t) and issubclass(t, dt.StringSerializable)):
                    r.fail("annotation-foreign-class", f"{path}.{n}: {t!r}\n{src}")
    for clause, detail in codeview.ast_name_problems(v.tree, v.imported):
        r.fail(clause, f"{detail}\n{src}")
    return r


@st.composite
def cases(draw, tier="quick"):
    c = draw(c01.cases(tier, pools=POOLS, root_names=gen.ROOT_NAMES))
    if draw(st.integers(0, 5)) == 0:
        # further root models (-m A a.json -m B b.json) over the same keys: models of different roots get merged, a nested
        # class of one root may refer to another root
        from ..findings import all_keys
        universe, folds = [], set()
        for k in sorted({k for s in c["samples"] for k in all_keys(s)}) or ["a"]:
            if gen.fold(k) not in folds:         # keys of one object have to be pairwise fold-distinct (finding K1)
                folds.add(gen.fold(k))
                universe.append(k)
        used = {c["opts"].get("root", "Root")}
        extra = []
        for _ in range(draw(st.integers(1, 2))):
            nm = draw(st.sampled_from([n for n in gen.ROOT_NAMES + ["Other", "Beta"] if n not in used]))
            if gen.class_name_collision(universe, nm) or (not c["opts"]["unicode"] and gen.nfkc_unstable(nm)):
                continue
            if any(gen.root_forms(nm)[1] & gen.root_forms(u)[1] for u in used):
                continue
            used.add(nm)
            nested_objs = [v for s0 in c["samples"] for _, v in _items(s0) if isinstance(v, dict) and v]
            extra.append([nm, draw(st.one_of(st.just(c["samples"][:1]), gen.sample_lists(universe, max_samples=3, max_leaves=6),
                                             *([st.sampled_from(nested_objs).map(lambda o: [o])] * 2 if nested_objs else [])))])
        if extra:
            c["extra_models"] = extra
    elif draw(st.integers(0, 7)) == 0:
        from ..findings import all_keys
        holders = sorted({k for s in c["samples"] for k, v in _items(s) if isinstance(v, dict) or (isinstance(v, list) and any(isinstance(x, dict) for x in v))})
        if holders:
            nm = gen.class_forms(draw(st.sampled_from(holders)))[0]
            if nm and nm[0].isalnum() and (c["opts"]["unicode"] or not gen.nfkc_unstable(nm)):
                c["second_stage"] = {"name": nm, "samples": [{"zz_flat": 1, "zz_text": "t"}]}
    return c


def _items(o):
    if isinstance(o, dict):
        for k, v in o.items():
            yield k, v
            yield from _items(v)
    elif isinstance(o, list):
        for x in o:
            yield from _items(x)


def sweep_cases(tier):
    out = []
    seen = set()
    for p in POOLS:
        for k in p:
            if k in seen or gen.key_status(k) is not None:
                continue
            seen.add(k)
            for fw in gen.FRAMEWORKS:
                for uni in (True, False):
                    if not uni and (gen.nfkc_unstable(k) or (tier == "quick" and k.isascii())):
                        continue
                    for shape in (("scalar", "object") if tier == "quick" else ("scalar", "object", "optional-object-list")):
                        if shape == "scalar":
                            samples = [{k: 1, "zz": "1"}]
                        elif shape == "object":
                            samples = [{k: {k: "x", "zz": None}}]
                        else:
                            samples = [{k: [{"zz": "true"}]}, {"zz": 1}]
                        out.append({"samples": samples, "opts": {"fw": fw, "unicode": uni, "nested": shape == "object",
                                                                 "pic": fw in ("attrs", "dataclasses"), "meta": True}})
    return out


def valid(case):
    extra = case.get("extra_models") or []
    st2 = case.get("second_stage")
    if st2 is not None:
        try:
            if not (isinstance(st2["name"], str) and st2["name"] and st2["name"][0].isalnum()
                    and c01.valid({"samples": st2["samples"], "opts": case["opts"]})):
                return False
        except Exception:  # noqa: BLE001
            return False
    try:
        names = [case["opts"].get("root", "Root")] + [x[0] for x in extra]
        if len(set(names)) != len(names) or not all(isinstance(n, str) and n and n[0].isalnum() for n in names):
            return False
        if not all(c01.valid({"samples": x[1], "opts": dict(case["opts"], root=x[0])}) for x in extra):
            return False
    except Exception:  # noqa: BLE001
        return False
    return c01.valid(case)


def phases(tier):
    n = {"quick": 16 * 1200, "thorough": 16 * 20000}[tier]
    return [dict(name="sweep", kind="enumerate", cases=sweep_cases, check=check),
            dict(name="main", kind="hypothesis", strategy=cases(tier), check=check, examples=n)]
