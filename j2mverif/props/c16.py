"""C16 — the command line is a faithful front end to the library pipeline."""
import ast
import contextlib
import configparser
import io
import itertools
import json
import os
import sys
import tempfile

from hypothesis import strategies as st

from .. import gen, pipeline as pl, subproc, cliargs
from ..core import R, exc_sig, input_labels
from . import c01

ID = "C16"
LEVEL = "exploration"
RULE = ("Hypothesis: 1-3 model names, each with 1-3 input specs (-m file, -m lookup file, deprecated -l, one glob pattern matching 1-3 "
        "files, one file addressed several times with different lookups); every file holds its samples as a top-level list or a single object, optionally wrapped under a dotted lookup "
        "path of depth 1-3; option sets expressed as argv (framework, -s, --merge, --max-strings-literals, --datetime, "
        "--strings-converters, --disable-unicode-conversion, --dict-keys-regex/-fields, --code-generator-kwargs meta=true, "
        "--disable-str-serializable-types; in a third of the cases every option in its other documented spelling; built-in generators also "
        "through -f custom --code-generator PATH); input format json / yaml (the JSON text) / ini (with [DEFAULT], %% and %(name)s "
        "values); -o on/off. Boosters: decoy keys equal to the dotted rest of a lookup, keys split between two --dkr patterns, three roots "
        "whose similarity to a union differs from that to its members, exact / sub-percent thresholds, 13-17 string constants with limits "
        "14..100. The Cli object may have served an earlier (failed or successful, differently configured) command. Oracle: the expected text is "
        "the library pipeline written out in the harness from the documented meaning of each flag (own argv -> comparators, "
        "anchored regexes, explicit string registry, generator kwargs) on the samples concatenated in argument order (for a glob: "
        "any permutation of the matched files); CLI stdout after the header statement (located with ast) must equal it exactly; "
        "with -o the file must be header + that text and stdout must hold no model code. Drivers: in-process Cli().parse_args/"
        "run with sys.argv patched and the global string registry restored around each case, and real `python -m json_to_models` "
        "subprocesses. Non-trivial: samples split over >= 2 files or a lookup is used, and >= 1 non-default option. "
        "distinct = canonical JSON of the case.")
ASSUMPTIONS = ["-l before -m for the same model is not generated (known finding legacy-list-order, replayed)",
               "yaml cases are used only when ruamel.yaml reads the JSON text back to the same value (else skipped, counted)",
               "a crash of the pipeline on both sides is skipped (C01/C03 report it)"]
FLOORS = {}


# ---------------------------------------------------------------------------------------------
# case -> files + argv + expected sample lists

def wrap(value, path, decoy=False):
    """value under the nested keys of path.  decoy: every object on the way also gets a key that is literally the dotted
    rest of the path (a lookup is a dot-separated path of keys, so such a key cannot be addressed and must not be chosen)"""
    for i in range(len(path) - 1, -1, -1):
        value = {path[i]: value}
        if decoy and len(path) - i >= 2:
            value[".".join(path[i:])] = [{"decoy_key": "decoy"}]
    return value


def materialise(case, d):
    """write files under directory d; -> (argv, [(model name, [orderings of samples])], ok)"""
    fmt = case["format"]
    # input files are UTF-8 unless the CLI process will run under a non-UTF-8 locale (then pure ASCII with \u escapes):
    # how input is decoded is not what is being checked
    ascii_input = bool(case.get("c_locale") and case.get("output") and fmt == "json")
    ext = {"json": ".json", "yaml": ".yaml", "ini": ".ini"}[fmt]
    m_args, l_args = [], []
    per_model = {}
    order = []
    n = 0
    for spec in case["specs"]:
        name = spec["model"]
        files = []
        n += 1
        if spec["via"] == "same-file":
            # one document, several sub-documents selected by different lookups for the same model name
            fname = "f%d%s" % (n, ext)
            doc = {}
            for fi, f in enumerate(spec["files"]):
                doc["part%d" % fi] = f["samples"] if f["as_list"] else f["samples"][0]
            with open(os.path.join(d, fname), "w", encoding="utf-8") as fp:
                json.dump(wrap(doc, spec["lookup"], spec.get("decoy", False)), fp, ensure_ascii=ascii_input)
            for fi, f in enumerate(spec["files"]):
                m_args += ["-m", name, ".".join(spec["lookup"] + ["part%d" % fi]), fname]
                per_model.setdefault("m", []).append((name, "m", [f["samples"] if f["as_list"] else [f["samples"][0]]]))
            continue
        shape = spec.get("glob_shape", "flat") if spec["via"] == "glob" else None
        for fi, f in enumerate(spec["files"]):
            sub = ("g%d" % n) if spec["via"] == "glob" else ""
            if shape == "deep":
                sub = os.path.join(sub, "part%d" % fi)       # g<n>/*/data.json: a literal component after the wildcard
            if sub:
                os.makedirs(os.path.join(d, sub), exist_ok=True)
            if shape == "deep":
                fname = os.path.join(sub, "data" + ext)
            else:
                fname = os.path.join(sub, "f%d_%d%s" % (n, fi, ext)) if sub else "f%d%s" % (n, ext)
            payload = f["samples"] if f["as_list"] else f["samples"][0]
            doc = wrap(payload, spec["lookup"], spec.get("decoy", False) and fmt != "ini")
            with open(os.path.join(d, fname), "w", encoding="utf-8") as fp:
                if fmt == "ini":
                    write_ini(fp, doc)
                else:
                    json.dump(doc, fp, ensure_ascii=ascii_input)
            files.append((fname, f["samples"] if f["as_list"] else [ini_effective(f["samples"][0]) if fmt == "ini" else f["samples"][0]]))
        lookup = ".".join(spec["lookup"]) if spec["lookup"] else "-"
        if spec["via"] == "m":
            m_args += ["-m", name] + ([lookup] if spec["lookup"] or spec.get("explicit_dash") else []) + [files[0][0]]
        elif spec["via"] == "l":
            l_args += ["-l", name, lookup, files[0][0]]
        else:
            gdir = "g%d" % n
            pattern = {"flat": os.path.join(gdir, "*" + ext), "deep": os.path.join(gdir, "*", "data" + ext),
                       "question": os.path.join(gdir, "f%d_?%s" % (n, ext)), "recursive": os.path.join(gdir, "**", "*" + ext)}[shape]
            m_args += ["-m", name] + ([lookup] if spec["lookup"] else []) + [pattern]
        per_model.setdefault(("l" if spec["via"] == "l" else "m"), []).append((name, spec["via"], [s for _, s in files]))
    # documented order is argument order; the harness only ever puts -l after -m (known finding legacy-list-order),
    # except for the finding's own reproducer, which sets legacy_first
    if case.get("legacy_first"):
        seq = per_model.get("l", []) + per_model.get("m", [])
        m_args, l_args = l_args, m_args
    else:
        seq = per_model.get("m", []) + per_model.get("l", [])
    names = []
    groups = {}
    for name, via, filesamples in seq:
        if name not in groups:
            groups[name] = []
            names.append(name)
        groups[name].append((via, filesamples))
    return m_args + l_args, [(nm, groups[nm]) for nm in names]


def orderings(groups):
    """all admissible sample sequences of one model: glob-matched files in any order"""
    alts = []
    for via, filesamples in groups:
        if via == "glob" and len(filesamples) > 1:
            alts.append([sum(p, []) for p in itertools.permutations(filesamples)])
        else:
            alts.append([sum(filesamples, [])])
    out = []
    for combo in itertools.product(*alts):
        out.append(sum(combo, []))
    return out


def write_ini(fp, doc):
    cp = configparser.ConfigParser()
    for section, options in doc.items():
        cp[section] = {k: v for k, v in options.items()}
    cp.write(fp)


GENERATOR_PATHS = {"attrs": "json_to_models.models.attr.AttrsModelCodeGenerator",
                   "dataclasses": "json_to_models.models.dataclasses.DataclassModelCodeGenerator",
                   "pydantic": "json_to_models.models.pydantic.PydanticModelCodeGenerator",
                   "base": "json_to_models.models.base.GenericModelCodeGenerator"}


def opts_argv(opts):
    a = cliargs.option_args(opts)
    if opts.get("custom_generator") and opts["fw"] in GENERATOR_PATHS:
        # the same generator class named through the documented -f custom --code-generator PATH route; its keyword arguments
        # then arrive as the raw strings of --code-generator-kwargs (meta=true is a non-empty string: on)
        i = a.index("-f")
        a[i:i + 2] = ["-f", "custom", "--code-generator", GENERATOR_PATHS[opts["fw"]]]
    if opts.get("disabled"):
        a += ["--disable-str-serializable-types"] + list(opts["disabled"])
    return a


ACTUAL = {"IntString": "int", "FloatString": "float", "BooleanString": "bool", "IsoDateString": "date",
          "IsoTimeString": "time", "IsoDatetimeString": "datetime"}


def library_opts(opts):
    """documented meaning of the flags as library-level options"""
    o = dict(opts)
    names = list(pl.FULL_SREG if len(opts["sreg"]) == 6 else pl.DEFAULT_SREG)
    dis = set(opts.get("disabled") or [])
    o["sreg"] = [n for n in names if n not in dis and ACTUAL[n] not in dis]
    o["dkr"] = ["^%s$" % r for r in opts.get("dkr", [])]
    if opts["fw"] not in ("attrs", "dataclasses"):
        o["meta"] = False
    if opts["fw"] not in ("attrs", "dataclasses", "base"):
        pass
    o.pop("disabled", None)
    o.pop("custom_generator", None)
    return o


def expected_texts(models, opts):
    """set of admissible texts (over glob orderings); raises what the library raises"""
    lo = library_opts(opts)
    per = [orderings(groups) for _, groups in models]
    texts = set()
    for combo in itertools.islice(itertools.product(*per), 36):
        first = combo[0]
        extra = [(models[i][0], combo[i]) for i in range(1, len(models))]
        b = pl.build(first, lo, name=models[0][0], extra_models=extra)
        texts.add(pl.render(b.reg, lo))
    return texts


def split_header(text):
    tree = ast.parse(text)
    if not tree.body or not isinstance(tree.body[0], ast.Expr) or not isinstance(tree.body[0].value, ast.Constant) \
            or not isinstance(tree.body[0].value.value, str):
        return None, text
    end = tree.body[0].end_lineno
    lines = text.split("\n")
    return "\n".join(lines[:end]) + "\n", "\n".join(lines[end:])


@contextlib.contextmanager
def global_registry_restored():
    from json_to_models.dynamic_typing import registry
    types, replaces = list(registry.types), set(registry.replaces)
    try:
        yield
    finally:
        registry.types[:] = types
        registry.replaces.clear()
        registry.replaces.update(replaces)


def run_in_process(argv, cwd, prior_argv=None, run_twice=False):
    """one conversion through a Cli object; optionally the object has already served another conversion (prior_argv), or
    run() is called a second time and that second result is returned"""
    from json_to_models.cli import Cli
    old_argv, old_cwd = sys.argv, os.getcwd()
    os.chdir(cwd)
    try:
        with global_registry_restored(), contextlib.redirect_stderr(io.StringIO()):
            cli = Cli()
            if prior_argv is not None:
                sys.argv = ["json2models"] + list(prior_argv)
                try:
                    cli.parse_args(list(prior_argv))
                    cli.run()
                except (Exception, SystemExit):  # noqa: BLE001 - the earlier use of the object may have failed midway
                    pass
            sys.argv = ["json2models"] + list(argv)
            cli.parse_args(list(argv))
            out = cli.run()
            if run_twice:
                out = cli.run()
            return out
    finally:
        sys.argv = old_argv
        os.chdir(old_cwd)


# ---------------------------------------------------------------------------------------------

def check_with(case, driver):
    r = R()
    opts = pl.norm_opts(case["opts"])
    opts["disabled"] = case["opts"].get("disabled", [])
    r.label("format:" + case["format"], "driver:" + driver, "fw:" + opts["fw"])
    nfiles = sum(len(s["files"]) for s in case["specs"])
    uses_lookup = any(s["lookup"] for s in case["specs"])
    nondefault = opts_argv(opts) != ["-f", "base", "-s", "flat"]
    r.nontrivial = (nfiles >= 2 or uses_lookup) and nondefault
    for s in case["specs"]:
        r.label("via:" + s["via"])
    if uses_lookup:
        r.label("lookup")
    if case["output"]:
        r.label("-o")
    with tempfile.TemporaryDirectory(prefix="j2mv_c16_") as d:
        argv_in, models = materialise(case, d)
        if case["format"] == "yaml":
            from json_to_models.cli import yaml_load
            for root_, _, fs in os.walk(d):
                for fn in fs:
                    p = os.path.join(root_, fn)
                    try:
                        with open(p, encoding="utf-8") as fp:
                            y = yaml_load(fp)
                        with open(p, encoding="utf-8") as fp:
                            j = json.load(fp)
                    except Exception:  # noqa: BLE001
                        y, j = 1, 2
                    if y != j or json.dumps(y, sort_keys=True, default=str) != json.dumps(j, sort_keys=True):
                        r.skip = "yaml-reads-json-text-differently"
                        return r
        argv = argv_in + opts_argv(opts) + (["-i", case["format"]] if case["format"] != "json" else [])
        outfile = os.path.join(d, "out", "models.py")
        if case["output"]:
            os.makedirs(os.path.dirname(outfile))
            argv += ["-o", outfile]
        if case.get("alt_spelling"):
            # every option through its other documented spelling (long form / alias)
            r.label("alternative-option-spellings")
            alt = {"-m": "--model", "-l": "--list", "-i": "--input-format", "-o": "--output", "-f": "--framework", "-s": "--structure",
                   "--disable-unicode-conversion": "--no-unidecode", "--dict-keys-regex": "--dkr", "--dict-keys-fields": "--dkf"}
            argv = [alt.get(a, a) for a in argv]
        # expected
        try:
            exp = expected_texts(models, opts)
            exp_exc = None
        except RecursionError:
            exp, exp_exc = None, "RecursionError"
        except Exception as e:  # noqa: BLE001
            exp, exp_exc = None, type(e).__name__
        # actual
        if driver == "inproc":
            try:
                if case.get("run_twice"):
                    r.label("run-called-twice")
                prior = None
                if case.get("prior_ok_command"):
                    # the same Cli object has already completed another command with other (wider) options
                    r.label("cli-object-reused-after-successful-command")
                    f0 = [a for a in argv_in if not a.startswith("-")][-1]
                    if not any(ch in f0 for ch in "*?"):
                        pname = case["specs"][0]["model"] if len(f0) % 2 else "Earlier"     # same model name in half of the cases
                        prior = ["-m", pname, f0, "--merge", "percent_1", "number_1", "--dict-keys-regex", ".*", "n_.*",
                                 "--dict-keys-fields", "data", "items", *case["specs"][0]["lookup"][:1],
                                 "-f", opts["fw"] if opts["fw"] in ("attrs", "dataclasses") else "attrs",
                                 "--max-strings-literals", "1", "-s", "nested", "--strings-converters",
                                 "--disable-unicode-conversion", "--preamble", "# EARLIER = 1",
                                 "--code-generator-kwargs", "meta=false" if opts.get("meta") else "meta=true"] + \
                            (["-i", case["format"]] if case["format"] != "json" else [])
                elif case.get("prior_failed_parse"):
                    # the same Cli object was used before for a command that failed after its input had been loaded
                    r.label("cli-object-reused-after-failed-command")
                    prior = ["-m", "Stale", [a for a in argv_in if not a.startswith("-")][-1]] + ["--merge", "no_such_policy"]
                    if any(ch in prior[2] for ch in "*?"):
                        prior = None
                out = run_in_process(argv, d, prior_argv=prior, run_twice=bool(case.get("run_twice")))
                rc, stdout = 0, out
            except SystemExit as e:
                rc, stdout = (e.code or 0), ""
            except RecursionError:
                rc, stdout = 1, ""
            except Exception as e:  # noqa: BLE001
                rc, stdout = 1, ""
                got_exc = type(e).__name__
        else:
            extra = None
            if case["output"] and case.get("c_locale") and case["format"] == "json" and all(a.isascii() for a in argv):
                # the file is written by a process whose locale encoding is not UTF-8
                extra = {"LC_ALL": "C", "LANG": "C", "PYTHONUTF8": "0", "PYTHONCOERCECLOCALE": "0"}
                r.label("-o-under-C-locale")
            rc, stdout, stderr = subproc.run_cli(argv, cwd=d, extra_env=extra)
        if exp is None:
            if rc == 0:
                r.fail("cli-succeeds-where-library-raises", f"{exp_exc}; argv {argv}")
            else:
                r.skip = "pipeline-error-on-both-sides:" + str(exp_exc)
            return r
        if rc != 0:
            r.fail("cli-fails-where-library-succeeds", f"argv {argv}: rc={rc} {locals().get('got_exc', '')} {locals().get('stderr', '')[-400:]}")
            return r
        if case["output"]:
            try:
                with open(outfile, encoding="utf-8") as fp:
                    content = fp.read()
            except OSError as e:
                r.fail("output-file-not-written", str(e))
                return r
            if "class " in stdout or "import " in stdout:
                r.fail("model-code-on-stdout-with-o", stdout[:400])
            text = content
        else:
            text = stdout
            if driver == "subproc":
                if not text.endswith("\n"):
                    r.fail("stdout-not-newline-terminated", text[-100:])
                text = text[:-1]
        try:
            header, rest = split_header(text)
        except SyntaxError as e:
            r.skip = "unparsable-output"       # C19 / C03 territory
            return r
        if header is None:
            r.fail("header-missing", text[:300])
            return r
        if rest not in exp:
            e0 = sorted(exp)[0]
            r.fail("cli-text-differs-from-library", f"argv {argv}\n--- cli:\n{rest}\n--- library ({len(exp)} admissible):\n{e0}")
    return r


def check(case):
    return check_with(case, "inproc")


def check_subproc(case):
    return check_with(case, "subproc")


# ---------------------------------------------------------------------------------------------

MODEL_NAMES = ["Root", "Item", "Alpha", "user", "ApiResponse"]
LOOKUP_KEYS = ["data", "results", "items", "payload", "x"]


@st.composite
def ini_samples(draw):
    sections = draw(st.lists(st.sampled_from(["main", "db", "server", "paths"]), min_size=1, max_size=3, unique=True))
    doc = {}
    for s in sections:
        opts = draw(st.lists(st.sampled_from(["host", "port", "debug", "name", "timeout", "ratio"]), min_size=1, max_size=4, unique=True))
        doc[s] = {o: draw(st.sampled_from(["localhost", "8080", "true", "false", "1.5", "x y", "2018-01-02", "a"])) for o in opts}
    if draw(st.integers(0, 2)) == 0:
        # a [DEFAULT] section: its options belong to every section (configparser semantics), it is not a section itself
        opts = draw(st.lists(st.sampled_from(["host", "port", "debug", "name", "timeout", "ratio", "owner"]), min_size=1, max_size=4, unique=True))
        doc = dict([("DEFAULT", {o: draw(st.sampled_from(["localhost", "8080", "true", "1.5", "d"])) for o in opts})] + list(doc.items()))
    if draw(st.integers(0, 2)) == 0:
        # values written with the INI escape for a percent sign and with a reference to another option of the section (or of
        # [DEFAULT]): the builtin parser resolves both
        for sec in [x for x in doc if x != "DEFAULT"]:
            avail = list(doc.get("DEFAULT", {})) + [k for k in doc[sec] if "%" not in doc[sec][k]]
            avail = [k for k in avail if "%" not in {**doc.get("DEFAULT", {}), **doc[sec]}[k]]
            if avail and draw(st.booleans()):
                doc[sec]["url"] = "%(" + draw(st.sampled_from(avail)) + ")s/x"
            if draw(st.booleans()):
                doc[sec]["share"] = draw(st.sampled_from(["50%%", "%%", "1%% of x"]))
    return [doc]


def ini_effective(doc):
    """what an INI document means: every section with the defaults first (an overriding option keeps the default's place),
    %% read as a percent sign and %(name)s as the value of option name"""
    if not isinstance(doc, dict):
        return doc
    import re
    out = {}
    for sec, options in doc.items():
        if sec == "DEFAULT":
            continue
        d = dict(doc.get("DEFAULT", {}))
        d.update(options)
        raw = dict(d)
        for k, v in d.items():
            if isinstance(v, str) and "%" in v:
                d[k] = re.sub(r"%%|%\((\w+)\)s", lambda m: "%" if m.group(0) == "%%" else raw[m.group(1)], v)
        out[sec] = d
    return out


@st.composite
def cases(draw, tier="quick", formats=("json", "json", "json", "yaml", "ini")):
    fmt = draw(st.sampled_from(list(formats)))
    universe = draw(gen.key_universe(gen.ASCII_KEY_POOLS + [["firstName", "created_at", "é", "list", "id", '15"', '"raw', '"q"']], min_size=2, max_size=6))
    nmodels = draw(st.sampled_from([1, 1, 2, 3]))
    names = draw(st.lists(st.sampled_from(MODEL_NAMES), min_size=nmodels, max_size=nmodels, unique=True))
    specs = []
    for name in names:
        for _ in range(draw(st.sampled_from([1, 1, 2, 3]))):
            via = draw(st.sampled_from(["m", "m", "m", "l", "glob", "same-file"]))
            if fmt == "ini":
                via = draw(st.sampled_from(["m", "m", "glob"]))
            nf = draw(st.integers(1, 3)) if via == "glob" else draw(st.integers(2, 3)) if via == "same-file" else 1
            lookup = draw(st.lists(st.sampled_from(LOOKUP_KEYS), max_size=3)) if fmt != "ini" else []
            if via == "l" and not lookup and draw(st.booleans()):
                lookup = [draw(st.sampled_from(LOOKUP_KEYS))]
            files = []
            for _ in range(nf):
                if fmt == "ini":
                    files.append({"as_list": False, "samples": draw(ini_samples())})
                    continue
                smp = draw(gen.sample_lists(universe, max_samples=3, max_leaves=6))
                as_list = draw(st.booleans()) or len(smp) != 1
                files.append({"as_list": as_list, "samples": smp})
            spec = {"model": name, "via": via, "lookup": lookup, "files": files}
            if len(lookup) >= 2 and draw(st.booleans()):
                spec["decoy"] = True
            if via == "glob":
                spec["glob_shape"] = draw(st.sampled_from(["flat", "flat", "deep", "question", "recursive"]))
            specs.append(spec)
    # keep the number of admissible glob orderings small enough to enumerate (<= 36)
    budget = 36
    for sp in specs:
        if sp["via"] != "glob":
            continue
        f = {1: 1, 2: 2, 3: 6}[len(sp["files"])]
        if f > budget:
            sp["files"] = sp["files"][:1]
        else:
            budget //= f
    o = draw(gen.option_sets(universe))
    o["sreg"] = draw(st.sampled_from([list(pl.DEFAULT_SREG), list(pl.FULL_SREG)]))
    o["dkr"] = [x for x in o["dkr"] if not x.startswith("-")]
    o["disabled"] = draw(st.sampled_from([[], [], [], ["int"], ["float", "bool"], ["IsoDateString"], ["date", "time"]]))
    o["custom_generator"] = draw(st.sampled_from([False, False, False, True]))
    if o["nested"] and len(names) > 1:
        o["nested"] = draw(st.booleans())
    if fmt != "ini" and draw(st.integers(0, 5)) == 0:
        # two sibling objects whose shared / total key ratio is exactly N percent, with --merge percent_N (parsing of N matters)
        shared, total = draw(st.sampled_from([(7, 10), (19, 20), (7, 20), (1, 2), (3, 4), (41, 50), (47, 50), (57, 100)]))
        a_only = (total - shared) // 2
        ks = ["k%02d" % i for i in range(total)]
        o1 = {k: 1 for k in ks[:shared + a_only]}
        o2 = {k: 1 for k in ks[:shared] + ks[shared + a_only:]}
        specs[0]["files"][0] = {"as_list": True, "samples": [{"first": o1, "second": o2}]}
        o["merge"] = [["percent", 100 * shared / total if (100 * shared) % total else 100 * shared // total]]
        o["dkr"], o["dkf"] = [], []
    if fmt != "ini" and draw(st.integers(0, 11)) == 0:
        # a --dict-keys-fields name that starts / ends with a double quote (the name is the JSON key, character for character)
        qk = draw(st.sampled_from(['"raw', 'raw"', '"q"', 'size 15"']))
        specs[0]["files"][0] = {"as_list": True, "samples": [{qk: {"alpha": 1, "beta": 2}, "id": 1}, {qk: {"gamma": 3}, "id": 2}]}
        o["dkr"], o["dkf"] = [], [qk]
    if fmt != "ini" and draw(st.integers(0, 11)) == 0:
        # thresholds of one percent and below: two objects sharing 1 of 20 keys (5 %) are similar under --merge percent_1 / _0.5 / _0.1
        ks = ["k%02d" % i for i in range(20)]
        o1 = {k: 1 for k in ks[:10]}
        o2 = {k: 1 for k in ks[9:]}
        specs[0]["files"][0] = {"as_list": True, "samples": [{"first": o1, "second": o2}]}
        o["merge"] = [["percent", draw(st.sampled_from([1, 0.5, 0.1]))]]
        o["dkr"], o["dkf"] = [], []
    if fmt != "ini" and draw(st.integers(0, 9)) == 0:
        # string constants right at the documented limits (15 distinct values, --max-strings-literals just above the count):
        # the option's value has to reach the code generator as it was given
        specs[0]["files"][0] = {"as_list": True, "samples": draw(gen.literal_boundary_samples(universe))}
        o["max_literals"] = draw(st.sampled_from([14, 15, 16, 16, 17, 20, 100]))
        if o["fw"] == "attrs":
            o["fw"] = "dataclasses"
        o["dkr"], o["dkf"] = [], []
    if fmt != "ini" and draw(st.integers(0, 9)) == 0:
        # an object whose keys are split between two --dict-keys-regex patterns: every key matches one of them, no pattern
        # matches them all, so it stays a model (the library wants all keys to match one and the same pattern)
        pats = draw(st.permutations([(r"n_\d+", ["n_1", "n_22"]), (r"[ab]", ["a", "b"]), (r"\d+", ["7", "10"]), (r"x_.*", ["x_q", "x_"])]))[:2]
        split = {k: draw(st.sampled_from([1, "s", 2.5])) for _, ks in pats for k in ks[:draw(st.integers(1, 2))]}
        whole = {k: 1 for k in pats[0][1]}
        specs[0]["files"][0] = {"as_list": True, "samples": [{"split_keys": split, "whole": whole, "id": 1}]}
        o["dkr"], o["dkf"] = [pats[0][0], pats[1][0]], []
    if fmt != "ini" and draw(st.integers(0, 7)) == 0:
        # three root models whose similarity to the *union* of the two others differs from the similarity to each of them:
        # merging once over the original key sets (documented pipeline) differs from any incremental merge per model
        def obj(ks):
            return {k: 1 for k in ks}
        if draw(st.booleans()):
            o["merge"] = [["number", 3]]
            sets = [list("xyzpq"), list("xyzrs"), list("pqrs")]
        else:
            o["merge"] = [["percent", 70]]
            base = ["k%02d" % i for i in range(10)]
            # A ~ B (10/14) and A ~ C (8/10), but C against A|B is 8/14
            sets = [base, base + ["m%d" % i for i in range(4)], base[:8]]
            if draw(st.booleans()):
                sets = [sets[1], sets[0], sets[2]]
        if draw(st.booleans()):
            sets.reverse()
        specs = [{"model": nm, "via": "m", "lookup": [], "files": [{"as_list": draw(st.booleans()), "samples": [obj(ks)]}]}
                 for nm, ks in zip(["Alpha", "Beta", "Gamma"], sets)]
        o["dkr"], o["dkf"], o["nested"] = [], [], False
    return {"specs": specs, "opts": o, "format": fmt, "output": draw(st.sampled_from([False, False, True])),
            "c_locale": draw(st.booleans()), "run_twice": draw(st.sampled_from([False, False, True])),
            "prior_failed_parse": draw(st.sampled_from([False, False, False, True])),
            "prior_ok_command": draw(st.sampled_from([False, False, False, True])),
            "alt_spelling": draw(st.sampled_from([False, False, True]))}


def valid(case):
    try:
        if case["format"] not in ("json", "yaml", "ini") or not isinstance(case["output"], bool) or not case["specs"]:
            return False
        o = dict(case["opts"])
        dis = o.pop("disabled", [])
        if not isinstance(o.pop("custom_generator", False), bool):
            return False
        if not all(x in list(ACTUAL) + list(ACTUAL.values()) for x in dis):
            return False
        if len(o.get("sreg", [])) not in (3, 6):
            return False
        if any(x.startswith("-") for x in o.get("dkr", []) + o.get("dkf", [])):
            return False
        perms = 1
        for s in case["specs"]:
            if s["via"] == "glob":
                perms *= {1: 1, 2: 2, 3: 6}.get(len(s["files"]), 99)
        if perms > 36:
            return False
        for s in case["specs"]:
            if s["via"] not in ("m", "l", "glob", "same-file") or not s["files"] or not s["model"].isidentifier():
                return False
            if s["via"] in ("m", "l") and len(s["files"]) != 1:
                return False
            if s.get("glob_shape", "flat") not in ("flat", "deep", "question", "recursive"):
                return False
            if s["via"] == "same-file" and case["format"] == "ini":
                return False
            if len(s["files"]) > 3:
                return False
            if not all(isinstance(k, str) and k and "." not in k and k != "-" for k in s["lookup"]):
                return False
            if case["format"] == "ini" and (s["lookup"] or s["via"] == "l"):
                return False
            for f in s["files"]:
                if not f["samples"] or (not f["as_list"] and len(f["samples"]) != 1):
                    return False
                if case["format"] == "ini":
                    for smp in f["samples"]:
                        if not all(isinstance(v, dict) and v and all(isinstance(x, str) and x and "%" not in x and "\n" not in x and x == x.strip()
                                                                     for x in v.values()) and all(k == k.lower() and k.isidentifier() for k in v)
                                   for v in smp.values()) or not smp:
                            return False
                if not c01.valid({"samples": f["samples"], "opts": dict(o, fw=o.get("fw", "base"))}):
                    return False
        return True
    except Exception:  # noqa: BLE001
        return False


def phases(tier):
    q = tier == "quick"
    return [dict(name="inproc", kind="hypothesis", strategy=cases(tier), check=check, examples=(16 * 450 if q else 16 * 6000)),
            dict(name="subproc", kind="hypothesis", strategy=cases(tier), check=check_subproc, examples=(16 * 6 if q else 16 * 150))]
