"""C04 — emitted classes denote exactly the inferred model graph."""
from hypothesis import strategies as st

from .. import gen, oracle, codeview, pipeline as pl
from ..core import R, unowned, input_labels
from ..pipeline import dt
from . import c01, c03

ID = "C04"
LEVEL = "exploration"
RULE = ("Hypothesis: C03's generator (full key pools, all frameworks, both layouts, literal limit / converter / meta / unicode options). "
        "Oracle, per model <-> class (matched by class name): every model key maps to exactly one field whose name folds to the key "
        "and every field is used by exactly one key (minus null-only fields for pydantic/sqlmodel); the original key is recoverable "
        "exactly when the name differs (pydantic alias; J2M_ORIGINAL_FIELD metadata when meta is on); the evaluated annotation equals "
        "an independent rendering of the IR type to typing objects under the framework's style; default <=> optional with a "
        "list/dict factory (or []/{} for pydantic) for optional containers and None otherwise, read from __fields__ / attr.fields "
        "/ dataclasses.fields; sqlmodel primary_key exactly for int id/pk. Base output: names and annotations only. "
        "Non-trivial: some class has a renamed field, an optional container, or a Union/Literal annotation. "
        "distinct = canonical JSON of (samples, options).")
ASSUMPTIONS = ["classes are matched to models by class name (C03 checks that names are distinct)",
               "load failures are C03's business: such cases are skipped and counted"]
FLOORS = {"key:non-identifier": 0.2}
EXCLUDED_BY_FINDING = c03.EXCLUDED_BY_FINDING


def check(case):
    r = R()
    samples, opts = case["samples"], pl.norm_opts(case["opts"])
    from ..findings import all_keys
    keys = set(k for s in samples for k in all_keys(s))
    r.label(*c03.key_labels(keys))
    r.label(*input_labels(samples))
    fw = opts["fw"]
    r.label("fw:" + fw)
    extra = [tuple(x) for x in case.get("extra_models") or []]
    if extra:
        r.label("several-root-models")
    ok, b = unowned(r, pl.build, samples, opts, "Root", extra)
    if not ok:
        return r
    if extra and any(len({gen.fold(k) for k in m.type}) != len(m.type) for m in b.reg.models):
        # models of different roots were merged and pooled fold-equal keys of unrelated objects: finding folded-equal-keys
        # (K1), excluded from this check's domain like fold-equal keys of one object are (counted as skipped)
        r.skip = "excluded:folded-equal-keys-in-one-merged-model"
        return r
    tree = pl.is_tree(b.reg, roots_referenced=True)
    dag = (not tree) and len(b.roots) == 1 and pl.is_acyclic(b.reg)
    nested = bool(opts["nested"] and (tree or dag))
    if nested and dag:
        # extension beyond C03's tree-only claim (C04 quantifies over both layouts): acyclic single-root graphs, where shared
        # models are referenced through absolute (dotted) paths; there an unresolvable annotation is C04's own business
        r.label("layout:nested-acyclic-shared-models")
        r.nontrivial = True
        sub = R()
        ok, src = unowned(sub, pl.render, b.reg, dict(opts, nested=True))
        if not ok:
            r.fail("nested-acyclic:render-" + (sub.skip or "error"), "")
            return r
        v = codeview.load_view(sub, b, opts, src, True, own=True)
        if v is None:
            c, d = sub.viol[0]
            if c.startswith(("load:NameError", "hints:", "class-count", "class-for-model", "load:TypeError", "load:AttributeError")):
                r.fail("nested-acyclic:" + c, d)
            else:
                r.skip = "load-problem:" + c
            return r
    else:
        ok, src = unowned(r, pl.render, b.reg, dict(opts, nested=nested))
        if not ok:
            return r
        v = codeview.load_view(r, b, opts, src, nested, own=False)
        if v is None:
            return r
    maxlit = opts["max_literals"]
    pyd = fw in ("pydantic", "sqlmodel")
    base_gens = {}
    for m in b.reg.models:
        cls = v.cls_of[m.index]
        hints = v.ld.hints[cls]
        own_ann = list(cls.__dict__.get("__annotations__", {}))
        fields = oracle.class_fields(cls, fw)
        if set(fields) != set(own_ann) and fw != "base":
            r.fail("field-table-differs-from-annotations", f"{cls.__name__}: {sorted(fields)} vs {sorted(own_ann)}\n{src}")
            continue
        used = set()
        for key, t in m.type.items():
            if pyd and (t is dt.Null or t is dt.Unknown):
                f, n = oracle.field_for_key(fields, key)
                if f is not None and f.key == key:
                    r.fail("null-only-field-kept", f"{cls.__name__}.{key}\n{src}")
                continue
            f, n = oracle.field_for_key(fields, key)
            if f is None:
                r.fail("no-field-for-key" if n == 0 else "ambiguous-field-for-key", f"{cls.__name__}: key {key!r}, fields {sorted(fields)}\n{src}")
                continue
            if f.name in used:
                r.fail("two-keys-one-field", f"{cls.__name__}: {key!r} -> {f.name}\n{src}")
                continue
            used.add(f.name)
            if not oracle.name_ok_for_key(f.name, key):
                r.fail("field-name-not-derived-from-key", f"{cls.__name__}: {key!r} -> {f.name}\n{src}")
            # the sanitised name is a function of the key (and the unicode option), not of the framework: it must be the
            # name the plain generator gives the same key; the one documented exception is sqlmodel's id / pk
            if fw != "base" and not (fw == "sqlmodel" and key in ("id", "pk")):
                if base_gens.get(m.index) is None:
                    try:
                        base_gens[m.index] = pl.GENS["base"](m, convert_unicode=opts["unicode"])
                    except Exception:  # noqa: BLE001
                        base_gens[m.index] = False
                if base_gens[m.index]:
                    try:
                        bn = base_gens[m.index].convert_field_name(key)
                    except Exception:  # noqa: BLE001
                        bn = None
                    if bn is not None and bn != f.name:
                        r.fail("field-name-differs-across-frameworks", f"{cls.__name__}: key {key!r} is {f.name!r} under {fw} but {bn!r} under base\n{src}")
            if f.name != key:
                r.nontrivial = True
                if pyd and f.key != key:
                    r.fail("alias-not-exact", f"{cls.__name__}.{f.name}: alias {f.key!r} for key {key!r}\n{src}")
                if fw in ("attrs", "dataclasses") and opts["meta"] and f.key != key:
                    r.fail("metadata-not-exact", f"{cls.__name__}.{f.name}: metadata {f.key!r} for key {key!r}\n{src}")
            elif pyd and f.key != key:
                r.fail("alias-not-exact", f"{cls.__name__}.{f.name}: alias {f.key!r} for key {key!r}\n{src}")
            # annotation
            try:
                exp = oracle.denote(t, fw, maxlit, v.cls_of)
            except (oracle.MalformedIR, KeyError) as e:
                r.fail("ir-malformed", f"{e}")
                continue
            got = hints.get(f.name)
            if isinstance(t, (dt.DUnion, dt.StringLiteral)) or (isinstance(t, dt.DOptional) and isinstance(t.type, (dt.DUnion, dt.StringLiteral))):
                r.nontrivial = True
            if not oracle.same_typing(got, exp):
                r.fail("annotation-differs", f"{cls.__name__}.{f.name} (key {key!r}): got {got!r}, expected {exp!r} for {t}\n{src}")
            # defaults
            if fw == "base":
                continue
            opt = isinstance(t, dt.DOptional)
            cont = None
            if opt and isinstance(t.type, dt.DList):
                cont = list
            elif opt and isinstance(t.type, dt.DDict):
                cont = dict
            if cont:
                r.nontrivial = True
            if f.has_default != opt:
                r.fail("default-iff-optional", f"{cls.__name__}.{f.name}: has_default={f.has_default} optional={opt}\n{src}")
                continue
            if opt:
                if pyd:
                    want = cont() if cont else None
                    if f.factory is not None:
                        okd = cont is not None and f.factory is cont
                    else:
                        okd = type(f.default) is type(want) and f.default == want
                    if not okd:
                        r.fail("wrong-default", f"{cls.__name__}.{f.name}: default {f.default!r} factory {f.factory!r}, expected {want!r}\n{src}")
                else:
                    if cont:
                        if f.factory is not cont:
                            r.fail("wrong-default", f"{cls.__name__}.{f.name}: factory {f.factory!r}, expected {cont}\n{src}")
                    elif f.factory is not None or f.default is not None:
                        r.fail("wrong-default", f"{cls.__name__}.{f.name}: default {f.default!r} factory {f.factory!r}, expected None\n{src}")
            if fw == "sqlmodel":
                pk = bool(f.extra.get("primary_key"))
                want_pk = f.name in ("id", "pk") and t is int
                if pk != want_pk:
                    r.fail("primary-key", f"{cls.__name__}.{f.name}: primary_key={pk}, expected {want_pk}\n{src}")
        extra = set(fields) - used
        if extra:
            r.fail("extra-fields", f"{cls.__name__}: {sorted(extra)}\n{src}")
    return r


def cases(tier="quick"):
    return c03.cases(tier)


def valid(case):
    return c03.valid(case)


def phases(tier):
    n = {"quick": 16 * 1200, "thorough": 16 * 20000}[tier]
    return [dict(name="main", kind="hypothesis", strategy=cases(tier), check=check, examples=n)]
