"""C08 — type simplification reaches a stable normal form."""
import ast
import itertools

from .. import gen, oracle, irx, pipeline as pl
from ..core import R, owned, unowned, input_labels
from ..pipeline import dt
from . import c01

ID = "C08"
LEVEL = "exploration"
RULE = ("(a) exhaustive: all multisets of <= 3 types from a finite universe of depth-<=2 IR types, in two pipeline-faithful modes "
        "plus mode 0 (all multisets of <= 2 types of a 61-type universe that also holds non-normal inputs such as "
        "Optional[Optional[int]], handed to the public optimize_type() directly, two passes as merge_models does): "
        "mode 1 (36 types without Optional) through merge_field_sets + optimize_type as generate() does, with and without a "
        "variant lacking the field; mode 2 (33 normal-form types incl. Optional-wrapped ones and nested models) as the single "
        "field of three root models that merge_models() merges. Oracle: normal-form predicate on every field type of every "
        "registered model, and a further optimize_type pass over all models raises nothing and leaves the "
        "canonical form (types as sets) of the graph unchanged, and neither does the re-run through a pointer (optimize_type(ptr, process_model_ptr=True)). (b) Hypothesis: final registries of C01's generator, same oracle (phase 'graphs'), and the result of generate() "
        "alone - one pass, no merge_models - incl. a registry into which the date/time classes are registered after its first "
        "use (phase 'generate-only'), plus the "
        "render-independent normal-form clauses on the AST of every emitted annotation. Non-trivial: (a) >= 2 members "
        "(a union had to be formed / simplified); (b) the graph contains a union or an Optional. distinct = canonical JSON.")
ASSUMPTIONS = ["text-level clauses are restricted to those rendering cannot introduce (nested/single-member unions, "
               "Optional in Optional or in Union, None in Union)"]
EXHAUSTIVE = {"quick": False, "thorough": False}
EXHAUSTIVE_NOTE = ("phase 'ir-multisets' enumerates its finite domain completely in both tiers "
                   "(mode 1: 9138 multisets x 2 variants, mode 2: 7139 multisets); phase 'graphs' is sampled")

M_A = ["Model", {"a": "int"}]
M_B = ["Model", {"a": "str", "b": "int"}]
M_N = ["Model", {"a": "Null"}]
LEAVES = ["int", "float", "bool", "str", "Null", "Unknown", "IntString", "FloatString", "BooleanString",
          ["Lit", ["a"]], ["Lit", ["b"]], ["LitOverflow"], M_A, M_B, M_N]
U1 = LEAVES + [["List", x] for x in ["int", "float", "str", "Null", "Unknown", "IntString", ["Lit", ["a"]], M_A, ["LitOverflow"]]] \
    + [["Dict", x] for x in ["int", "str", "Unknown", M_A, "FloatString"]] \
    + [["List", ["Union", "int", "Null"]], ["List", ["Union", "Unknown", "Null"]], ["Union", "int", "str"],
       ["List", ["List", "int"]], ["List", ["Dict", "int"]], ["Dict", ["List", "str"]], ["List", ["Union", "int", "str"]]]
NF_BASE = ["int", "float", "bool", "str", "IntString", "FloatString", "BooleanString", ["Lit", ["a"]], ["Lit", ["b"]], M_A, M_B,
           ["List", "int"], ["List", "str"], ["List", "Unknown"], ["List", M_A], ["List", "Null"], ["Dict", "int"],
           ["Dict", "Unknown"], ["Dict", M_A], ["Union", "int", "str"], ["Union", "float", ["Lit", ["a"]]],
           ["List", ["Union", "int", "str"]], ["List", ["Optional", "int"]]]
U2 = NF_BASE + ["Null"] + [["Optional", x] for x in ["int", "float", "str", "IntString", ["Lit", ["a"]], ["List", "int"], M_A,
                                                      ["Union", "int", "str"], ["Dict", "int"]]]


U0 = U1 + [x for x in U2 if x not in U1] + [
    ["Optional", ["Optional", "int"]], ["List", ["Optional", ["Optional", "str"]]], ["Optional", ["List", ["Optional", ["Optional", "int"]]]],
    ["Optional", "Null"], ["Optional", "Unknown"], ["Optional", ["Union", "int", "Null"]], ["Dict", ["Optional", ["Optional", M_A]]],
    ["Optional", ["Optional", ["Optional", ["Lit", ["a"]]]]],
    ["Optional", ["Union", ["Optional", ["Lit", ["a"]]], "float"]], ["Optional", ["Union", ["Optional", "int"], "str"]],
    ["Tuple", "int", "str"], ["Tuple", "float", "str"], ["Tuple", ["Union", "int", "float"], "str"], ["Tuple", ["Optional", ["Optional", "int"]], "str"]]


def ir_cases(tier):
    out = []
    # mode 0: arbitrary (also non-normal) types of the universe handed to the public optimize_type() directly, two passes
    for n in (1, 2):
        for ms in itertools.combinations_with_replacement(range(len(U0)), n):
            out.append({"mode": 0, "members": [U0[i] for i in ms]})
    for n in (1, 2, 3):
        for ms in itertools.combinations_with_replacement(range(len(U1)), n):
            for missing in (False, True):
                out.append({"mode": 1, "members": [U1[i] for i in ms], "missing": missing})
    for n in (1, 2, 3):
        for ms in itertools.combinations_with_replacement(range(len(U2)), n):
            out.append({"mode": 2, "members": [U2[i] for i in ms]})
    return out


def graph_description(reg):
    return "\n".join(irx.describe(m) for m in reg.models)


def check_registry(r, gen_, reg, sreg_names, prefix=""):
    """normal form of every field type + idempotence of a further pass"""
    for m in reg.models:
        if not isinstance(m.type, dict):
            r.fail(prefix + "nf:model-without-field-dict", str(m))
            continue
        for k, t in m.type.items():
            for clause, where in oracle.nf_violations(t, sreg_names, f"{m.index}.{k}"):
                r.fail(prefix + "nf:" + clause, f"{where}: {irx.describe(t)}\n{graph_description(reg)}")
    before = graph_description(reg)
    canon_before = oracle.canon_graph(reg.models)[1]
    try:
        for m in list(reg.models):
            gen_.optimize_type(m)
    except RecursionError:
        r.fail(prefix + "repass:RecursionError", before)
        return
    except Exception as e:  # noqa: BLE001
        from ..core import exc_sig
        t, where = exc_sig(e)
        r.fail(prefix + f"repass:{t}@{where}", f"{e}\n{before}")
        return
    after = graph_description(reg)
    if canon_before != oracle.canon_graph(reg.models)[1]:
        r.fail(prefix + "repass-changes-graph", f"before:\n{before}\nafter:\n{after}")
        return
    # the other documented way to re-run simplification: through a pointer, optimize_type(ptr, process_model_ptr=True)
    # (one level: the pointer's own model is processed, pointers inside it are not followed)
    try:
        for m in list(reg.models):
            for ptr in list(m.pointers)[:1]:
                gen_.optimize_type(ptr, process_model_ptr=True)
    except RecursionError:
        r.fail(prefix + "repass-through-pointer:RecursionError", before)
        return
    except Exception as e:  # noqa: BLE001
        from ..core import exc_sig
        t, where = exc_sig(e)
        r.fail(prefix + f"repass-through-pointer:{t}@{where}", f"{e}\n{before}")
        return
    if canon_before != oracle.canon_graph(reg.models)[1]:
        r.fail(prefix + "repass-through-pointer-changes-graph", f"before:\n{before}\nafter:\n{graph_description(reg)}")


def check_ir(case):
    r = R()
    members = case["members"]
    r.nontrivial = len(members) >= 2
    r.label("mode:%d" % case["mode"], "size:%d" % len(members))
    sreg_names = list(pl.DEFAULT_SREG)
    sreg = pl.make_sreg(sreg_names)
    g = pl.MetadataGenerator(str_types_registry=sreg)
    if case["mode"] == 0:
        def run0():
            ms = [irx.decode(t) for t in members]
            t = dt.DUnion(*ms) if len(ms) > 1 else ms[0]
            meta = g.optimize_type(g.optimize_type({"f": t}))
            reg = pl.ModelRegistry()
            reg.process_meta_data(meta, model_name="Root")
            return reg
        ok, reg = owned(r, "optimize", run0)
        if not ok:
            return r
    elif case["mode"] == 1:
        variants = [{"f": irx.decode(t)} for t in members]
        if case.get("missing"):
            variants.insert(1, {})

        def run1():
            fields = g.merge_field_sets(variants)
            meta = g.optimize_type(fields)
            reg = pl.ModelRegistry()
            reg.process_meta_data(meta, model_name="Root")
            return reg
        ok, reg = owned(r, "generate", run1)
        if not ok:
            return r
    else:
        def run2():
            reg = pl.ModelRegistry(pl.ModelFieldsEquals())
            for i, t in enumerate(members):
                reg.process_meta_data({"f": irx.decode(t)}, model_name="M%d" % i)
            reg.merge_models(generator=g)
            return reg
        ok, reg = owned(r, "merge", run2)
        if not ok:
            return r
    check_registry(r, g, reg, sreg_names)
    return r


ALLOWED_TEXT_CLAUSES = {"single-member-union", "nested-union", "optional-in-union", "null-in-union", "optional-in-optional"}


def check_generate_only(case):
    """the result of generate() itself (one simplification pass, no merge_models): registered and checked as it is"""
    r = R()
    samples, opts = case["samples"], pl.norm_opts(case["opts"])
    r.label(*input_labels(samples))
    names = list(opts["sreg"])

    def run():
        sreg = pl.make_sreg([n for n in names if not (case.get("late_datetime") and n.startswith("Iso"))])
        g = pl.MetadataGenerator(str_types_registry=sreg, dict_keys_regex=list(opts["dkr"]) or None,
                                 dict_keys_fields=list(opts["dkf"]) or None)
        smp = samples
        if case.get("late_datetime"):
            # the registry is used once, then the date/time classes are registered into it (documented helper), then it is used again
            g.generate({"warm": ["1", "2.5", "x" * 25]}, {"warm": ["true"]})
            from json_to_models.dynamic_typing import register_datetime_classes
            register_datetime_classes(sreg)
            smp = list(samples) + [{"late_dd": ["2018-01-02", "x" * 25, "12:30"]}]
        meta = g.generate(*smp)
        reg = pl.ModelRegistry()
        reg.process_meta_data(meta, model_name="Root")
        return g, reg
    ok, res = owned(r, "generate", run)
    if not ok:
        return r
    g, reg = res
    if case.get("late_datetime"):
        r.label("datetime-registered-after-first-use")
    r.nontrivial = any(isinstance(x, (dt.DUnion, dt.DOptional)) for m in reg.models for t in m.type.values()
                       for x in ([t] + list(t.iter_child()) if isinstance(t, dt.BaseType) else [t]))
    check_registry(r, g, reg, names, prefix="generate-only:")
    return r


def check_graph(case):
    r = R()
    samples, opts = case["samples"], pl.norm_opts(case["opts"])
    r.label(*input_labels(samples))
    ok, b = unowned(r, pl.build, samples, opts)
    if not ok:
        # a crash inside merge_models' simplification pass is C08's own business
        if r.skip and ("optimize" in r.skip or "_merge" in r.skip or "merge_field_sets" in r.skip):
            r.fail("build:" + r.skip, "")
            r.skip = None
        return r
    has = any(isinstance(x, (dt.DUnion, dt.DOptional)) for m in b.reg.models for t in m.type.values()
              for x in ([t] + list(t.iter_child()) if isinstance(t, dt.BaseType) else [t]))
    r.nontrivial = has
    check_registry(r, b.gen, b.reg, opts["sreg"])
    if r.viol:
        return r
    ropts = dict(opts, nested=bool(opts["nested"] and pl.is_tree(b.reg)))
    ok, src = unowned(r, pl.render, b.reg, ropts)
    if not ok:
        r.skip = None
        return r
    try:
        tree = ast.parse(src)
    except SyntaxError:
        return r
    for node in ast.walk(tree):
        if isinstance(node, ast.AnnAssign):
            ann = node.annotation
            if isinstance(ann, ast.Constant) and isinstance(ann.value, str):
                continue
            for clause in oracle.annotation_nf_violations(ann):
                if clause in ALLOWED_TEXT_CLAUSES:
                    r.fail("text-nf:" + clause, f"{ast.unparse(ann)}\n{src}")
    return r


@__import__("hypothesis").strategies.composite
def gen_only_cases(draw, tier="quick"):
    import hypothesis.strategies as st
    c = draw(c01.cases(tier))
    c["late_datetime"] = draw(st.sampled_from([False, False, True]))
    return c


def valid(case):
    if "mode" in case:
        return case["mode"] in (0, 1, 2) and isinstance(case.get("members"), list) and 1 <= len(case["members"]) <= 3 \
            and all(m in {0: U0, 1: U1, 2: U2}[case["mode"]] for m in case["members"])
    return c01.valid(case)


def phases(tier):
    n = {"quick": 16 * 800, "thorough": 16 * 20000}[tier]
    return [dict(name="ir-multisets", kind="enumerate", cases=ir_cases, check=check_ir),
            dict(name="graphs", kind="hypothesis", strategy=c01.cases(tier), check=check_graph, examples=n),
            dict(name="generate-only", kind="hypothesis", strategy=gen_only_cases(tier), check=check_generate_only, examples=n)]
