"""./check <Cxx> <quick|thorough> | ./check <Cxx> --replay FILE

Runs one property's generated-input search on 16 worker processes, minimises failures, matches them against the
committed known-findings list, writes evidence/<Cxx>.json and prints VIOLATION / KNOWN-FINDING lines.
Exit status: 0 held on everything explored, 1 violation, 2 harness problem."""
import collections
import glob
import importlib
import json
import math
import multiprocessing
import os
import sys
import time
import traceback

from .env import VERIF, REPO, HarnessError

NSHARDS = int(os.environ.get("J2M_SHARDS", "16"))
OUT = os.environ.get("J2M_OUT", VERIF)     # evidence/ and replays/ go here (redirected by the sensitivity self-test only)
SHARD_BUDGET_S = {"quick": float(os.environ.get("J2M_QUICK_BUDGET", "70")),
                  "thorough": float(os.environ.get("J2M_THOROUGH_BUDGET", "1500"))}
SHRINK_EVALS = {"quick": 1500, "thorough": 10000}


def load_prop(pid):
    return importlib.import_module("j2mverif.props." + pid.lower())


def shard_seed(seed, phase_ix, shard):
    return (seed * 1000003 + phase_ix * 104729 + shard * 7919 + 12345) % (2 ** 32)


class Acc:
    def __init__(self):
        self.evaluations = 0
        self.nontrivial_hashes = set()
        self.labels = collections.Counter()
        self.counters = collections.Counter()
        self.skips = collections.Counter()
        self.samples = []
        self.failures = {}        # clause -> [count, smallest case, detail, phase]
        self.truncated = 0
        self.errors = []
        self.skip_samples = {}

    def add_result(self, phase_name, case, r, keep_samples=3):
        from .core import case_hash, canon_json
        self.evaluations += 1
        self.labels.update(r.labels)
        self.counters.update(r.counters)
        if r.skip:
            self.skips[r.skip] += 1
            self.skip_samples.setdefault(r.skip, case)
        if r.nontrivial and not r.skip:
            self.nontrivial_hashes.add(case_hash(case))
            if len(self.samples) < keep_samples:
                self.samples.append(case)
        for clause, detail in r.viol:
            cur = self.failures.get(clause)
            sz = len(canon_json(case))
            if cur is None:
                self.failures[clause] = [1, case, detail, phase_name, sz]
            else:
                cur[0] += 1
                if sz < cur[4]:
                    cur[1], cur[2], cur[4] = case, detail, sz

    def export(self):
        return dict(evaluations=self.evaluations, nontrivial_hashes=self.nontrivial_hashes,
                    labels=dict(self.labels), counters=dict(self.counters), skips=dict(self.skips),
                    samples=self.samples, failures=self.failures, truncated=self.truncated, errors=self.errors,
                    skip_samples=self.skip_samples)


class CaseTimeout(BaseException):
    """one case ran longer than the per-case limit: inconclusive (counted as truncated), never a violation"""


CASE_LIMIT_S = int(os.environ.get("J2M_CASE_LIMIT", "90"))


def _guarded(check, case):
    import signal

    def onalarm(signum, frame):
        raise CaseTimeout()

    old = signal.signal(signal.SIGALRM, onalarm)
    signal.alarm(CASE_LIMIT_S)
    try:
        return check(case)
    finally:
        signal.alarm(0)
        signal.signal(signal.SIGALRM, old)


def run_shard(args):
    pid, tier, seed, phase_ix, shard, nshards = args
    acc = Acc()
    try:
        mod = load_prop(pid)
        phase = mod.phases(tier)[phase_ix]
        deadline = time.monotonic() + SHARD_BUDGET_S[tier] * phase.get("budget_factor", 1.0)
        check = phase["check"]
        name = phase["name"]
        if phase.get("setup"):
            phase["setup"](tier, shard)
        if phase["kind"] == "enumerate":
            cases = phase["cases"](tier)
            for i, case in enumerate(cases):
                if i % nshards != shard:
                    continue
                if time.monotonic() > deadline:
                    acc.truncated += 1
                    continue
                try:
                    acc.add_result(name, case, _guarded(check, case))
                except CaseTimeout:
                    acc.truncated += 1
                    acc.skips["case-timeout"] += 1
                    acc.skip_samples.setdefault("case-timeout", case)
        else:
            from hypothesis import given, settings, seed as hseed, HealthCheck, Phase
            n = int(math.ceil(phase["examples"] / nshards))

            @hseed(shard_seed(seed, phase_ix, shard))
            @settings(max_examples=n, database=None, deadline=None, derandomize=False, phases=[Phase.generate],
                      suppress_health_check=list(HealthCheck), report_multiple_bugs=False)
            @given(phase["strategy"])
            def t(case):
                if time.monotonic() > deadline:
                    acc.truncated += 1
                    return
                try:
                    acc.add_result(name, case, _guarded(check, case))
                except CaseTimeout:
                    acc.truncated += 1
                    acc.skips["case-timeout"] += 1
                    acc.skip_samples.setdefault("case-timeout", case)

            t()
        if phase.get("teardown"):
            phase["teardown"]()
    except Exception:  # noqa: BLE001
        acc.errors.append(traceback.format_exc())
    return acc.export()


def read_known_findings(pid):
    """-> list of dict(kind='finding'|'fixed', property, key, text)"""
    out = []
    path = os.path.join(VERIF, "KNOWN_FINDINGS.txt")
    if not os.path.exists(path):
        return out
    for line in open(path, encoding="utf-8"):
        line = line.strip()
        if not line or line.startswith("#"):
            continue
        kind, _, rest = line.partition(":")
        kind = kind.strip()
        if kind not in ("finding", "fixed"):
            continue
        fields = {}
        words = rest.strip().split(" ")
        text = []
        for w in words:
            if "=" in w and not text and w.split("=", 1)[0] in ("property", "key"):
                k, v = w.split("=", 1)
                fields[k] = v
            else:
                text.append(w)
        if fields.get("property") == pid:
            out.append(dict(kind=kind, property=pid, key=fields.get("key"), text=" ".join(text)))
    return out


def load_json(path):
    with open(path, encoding="utf-8") as f:
        return json.load(f)


def check_case(mod, tier, phase_name, case):
    phases = mod.phases(tier)
    for ph in phases:
        if ph["name"] == phase_name:
            if ph.get("setup"):
                ph["setup"](tier, 0)
            return ph["check"](case)
    raise HarnessError(f"no phase {phase_name}")


def main(argv=None):
    try:
        # details may contain anything the code under test emitted, lone surrogates included
        sys.stdout.reconfigure(errors="backslashreplace")
        sys.stderr.reconfigure(errors="backslashreplace")
    except Exception:  # noqa: BLE001
        pass
    argv = list(sys.argv[1:] if argv is None else argv)
    if len(argv) < 2:
        print("usage: check <Cxx> <quick|thorough> | check <Cxx> --replay FILE")
        return 2
    pid = argv[0].upper()
    t0 = time.time()
    try:
        seed = int(os.environ.get("VERIF_SEED", "1") or "1")
    except ValueError:
        seed = 1
    try:
        mod = load_prop(pid)
    except Exception:  # noqa: BLE001
        print("HARNESS-ERROR cannot load property module\n" + traceback.format_exc())
        return 2
    from . import findings as fnd

    if argv[1] == "--replay":
        return replay(mod, pid, argv[2])

    tier = argv[1]
    if tier not in ("quick", "thorough"):
        tier = os.environ.get("VERIF_TIER", "quick")
    phases = mod.phases(tier)
    violations = []        # (clause, replay path)
    known_lines = []
    harness_errors = []

    # -- known findings: reproducers still fail with their signature? -----------------------------------
    kf = read_known_findings(pid)
    active = []
    for f in kf:
        if f["kind"] != "finding":
            continue
        spec_path = os.path.join(VERIF, "findings", f["key"] + ".json")
        try:
            spec = load_json(spec_path)
            ent = next(e for e in spec["entries"] if e["property"] == pid)
            r = check_case(mod, tier, ent["phase"], ent["case"])
            hit = [c for c, _ in r.viol if fnd.clause_matches(ent, c)]
            if hit:
                print(f"KNOWN-FINDING: property={pid} {f['key']}: {f['text']}")
                known_lines.append(f["key"])
            active.append((f, ent))
        except Exception:  # noqa: BLE001
            harness_errors.append("known finding %s: %s" % (f["key"], traceback.format_exc()))

    # -- replay tier: committed reproducers of repaired defects and earlier regressions must pass -------
    acc_regress = 0
    for path in sorted(glob.glob(os.path.join(VERIF, "regress", pid, "*.json"))):
        try:
            spec = load_json(path)
            r = check_case(mod, tier, spec.get("phase", phases[0]["name"]), spec["case"])
            acc_regress += 1
            bad = [(c, d) for c, d in r.viol if not fnd.is_known(active, spec.get("phase"), spec["case"], c)]
            if bad:
                violations.append((bad[0][0], os.path.relpath(path, VERIF), bad[0][1]))
        except Exception:  # noqa: BLE001
            harness_errors.append("regress %s: %s" % (path, traceback.format_exc()))

    # -- generated search -------------------------------------------------------------------------------
    jobs = []
    for pi, ph in enumerate(phases):
        ns = min(NSHARDS, ph.get("max_shards", NSHARDS))
        for s in range(ns):
            jobs.append((pid, tier, seed, pi, s, ns))
    ctx = multiprocessing.get_context("spawn")
    import concurrent.futures as cf
    results = [None] * len(jobs)
    with cf.ProcessPoolExecutor(max_workers=min(NSHARDS, len(jobs)) or 1, mp_context=ctx) as pool:
        futs = {pool.submit(run_shard, j): i for i, j in enumerate(jobs)}
        for fut in cf.as_completed(futs):
            i = futs[fut]
            try:
                results[i] = fut.result()
            except Exception as e:  # noqa: BLE001  (a worker died: harness problem, never a violation)
                a = Acc()
                a.errors.append(f"worker for job {jobs[i][3:]} failed: {type(e).__name__}: {e}")
                results[i] = a.export()

    total = Acc()
    per_phase = collections.defaultdict(lambda: dict(evaluations=0, nontrivial=set(), truncated=0))
    for job, res in zip(jobs, results):
        pname = phases[job[3]]["name"]
        total.evaluations += res["evaluations"]
        total.nontrivial_hashes |= res["nontrivial_hashes"]
        total.labels.update(res["labels"])
        total.counters.update(res["counters"])
        total.skips.update(res["skips"])
        total.truncated += res["truncated"]
        pp = per_phase[pname]
        pp["evaluations"] += res["evaluations"]
        pp["nontrivial"] |= res["nontrivial_hashes"]
        pp["truncated"] += res["truncated"]
        if len(total.samples) < 6:
            total.samples.extend(res["samples"][:max(1, 6 - len(total.samples))][:2])
        harness_errors.extend(res["errors"])
        for k, c in res.get("skip_samples", {}).items():
            total.skip_samples.setdefault(k, c)
        for clause, (cnt, case, detail, phase_name, sz) in res["failures"].items():
            cur = total.failures.get(clause)
            if cur is None:
                total.failures[clause] = [cnt, case, detail, phase_name, sz]
            else:
                cur[0] += cnt
                if sz < cur[4]:
                    cur[1], cur[2], cur[3], cur[4] = case, detail, phase_name, sz

    # -- failures: known finding? else minimise, write replay, report ---------------------------------
    from .shrink import shrink
    from .core import bucket_hash
    excluded = collections.Counter(getattr(mod, "EXCLUDED_BY_FINDING", {}) or {})
    for clause in sorted(total.failures):
        cnt, case, detail, phase_name, sz = total.failures[clause]
        k = fnd.is_known(active, phase_name, case, clause)
        if k:
            excluded[k] += cnt
            if k not in known_lines:
                f = next(f for f, _ in active if f["key"] == k)
                print(f"KNOWN-FINDING: property={pid} {k}: {f['text']}")
                known_lines.append(k)
            continue

        def still(c, _clause=clause, _phase=phase_name):
            r = check_case(mod, tier, _phase, c)
            return any(cl == _clause for cl, _ in r.viol) and not fnd.is_known(active, _phase, c, _clause)

        try:
            small, evals = shrink(case, still, getattr(mod, "valid", None), SHRINK_EVALS[tier])
            r = check_case(mod, tier, phase_name, small)
            det = next((d for c, d in r.viol if c == clause), detail)
        except Exception:  # noqa: BLE001
            small, evals, det = case, 0, detail
        rdir = os.path.join(OUT, "replays", pid)
        os.makedirs(rdir, exist_ok=True)
        rpath = os.path.join(rdir, bucket_hash(clause) + ".json")
        with open(rpath, "w", encoding="utf-8") as f:
            json.dump(dict(property=pid, phase=phase_name, clause=clause, detail=det, count=cnt, seed=seed, tier=tier,
                           shrink_evaluations=evals, case=small), f, indent=1, ensure_ascii=True, default=str)
        violations.append((clause, os.path.relpath(rpath, OUT), det))

    # -- vacuity floors (input-side labels only) --------------------------------------------------------
    floor_problems = []
    floors = getattr(mod, "FLOORS", {}) or {}
    main_eval = max(1, total.evaluations)
    for lab, frac in floors.items():
        got = total.labels.get(lab, 0) / main_eval
        if got < frac and total.truncated == 0:
            floor_problems.append(f"label {lab}: {got:.3f} < floor {frac}")

    # -- evidence ---------------------------------------------------------------------------------------
    cov = dict(
        evaluations=total.evaluations + acc_regress,
        distinct_nontrivial=len(total.nontrivial_hashes),
        rule=mod.RULE,
        samples=total.samples[:6],
        exhaustive=bool(getattr(mod, "EXHAUSTIVE", {}).get(tier, False)) if isinstance(getattr(mod, "EXHAUSTIVE", None), dict) else False,
        classes=dict(sorted(total.labels.items())),
        counters=dict(sorted(total.counters.items())),
        skipped=dict(sorted(total.skips.items())),
        skipped_samples=total.skip_samples,
        excluded_by_finding=dict(sorted(excluded.items())),
        known_findings_reproduced=known_lines,
        replayed_regressions=acc_regress,
        shards=NSHARDS,
        truncated_by_budget=total.truncated,
        phases={k: dict(evaluations=v["evaluations"], distinct_nontrivial=len(v["nontrivial"]), truncated=v["truncated"])
                for k, v in per_phase.items()},
        failure_buckets={c: total.failures[c][0] for c in total.failures},
        floor_problems=floor_problems,
        repo=REPO,
    )
    if hasattr(mod, "EXHAUSTIVE_NOTE"):
        cov["exhaustive_subspace"] = mod.EXHAUSTIVE_NOTE
    ev = dict(property_id=pid, tier=tier, seed=seed, level=mod.LEVEL, coverage=cov,
              assumptions=list(getattr(mod, "ASSUMPTIONS", [])), wall_s=round(time.time() - t0, 2),
              violations=len(violations))
    os.makedirs(os.path.join(OUT, "evidence"), exist_ok=True)
    with open(os.path.join(OUT, "evidence", pid + ".json"), "w", encoding="utf-8") as f:
        json.dump(ev, f, indent=1, ensure_ascii=True, default=str)

    print(f"{pid} {tier} seed={seed}: evaluations={cov['evaluations']} distinct_nontrivial={cov['distinct_nontrivial']} "
          f"skipped={sum(total.skips.values())} truncated={total.truncated} wall={ev['wall_s']}s")
    for clause, rpath, det in violations:
        print(f"  bucket {clause}: {det[:300]}")
    for clause, rpath, det in violations:
        print(f"VIOLATION property={pid} replay={rpath}")
    if violations:
        return 1
    if harness_errors:
        print("HARNESS-ERROR\n" + "\n".join(harness_errors[:3]))
        return 2
    if floor_problems:
        print("HARNESS-ERROR vacuous run: " + "; ".join(floor_problems))
        return 2
    if cov["distinct_nontrivial"] < 2:
        print("HARNESS-ERROR vacuous run: fewer than 2 distinct non-trivial cases")
        return 2
    return 0


def replay(mod, pid, path):
    from . import findings as fnd
    if not os.path.isabs(path):
        path = os.path.join(VERIF, path) if not os.path.exists(path) else path
    spec = load_json(path)
    kf = read_known_findings(pid)
    active = []
    for f in kf:
        if f["kind"] == "finding":
            try:
                sp = load_json(os.path.join(VERIF, "findings", f["key"] + ".json"))
                active.append((f, next(e for e in sp["entries"] if e["property"] == pid)))
            except Exception:  # noqa: BLE001
                pass
    phase = spec.get("phase") or mod.phases("quick")[0]["name"]
    r = check_case(mod, "quick", phase, spec["case"])
    bad = []
    for c, d in r.viol:
        k = fnd.is_known(active, phase, spec["case"], c)
        if k:
            print(f"KNOWN-FINDING: property={pid} {k}")
        else:
            bad.append((c, d))
    for c, d in bad:
        print(f"  bucket {c}: {d[:500]}")
    if bad:
        print(f"VIOLATION property={pid} replay={os.path.relpath(path, VERIF)}")
        return 1
    print(f"{pid} replay {os.path.relpath(path, VERIF)}: holds" + (f" (skipped: {r.skip})" if r.skip else ""))
    return 0


if __name__ == "__main__":
    try:
        sys.exit(main())
    except HarnessError as e:
        print("HARNESS-ERROR", e)
        sys.exit(2)
