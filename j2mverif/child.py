"""Persistent child interpreter: reads one JSON request per line, answers one JSON line.
Used as the 'fresh process / other hash seed' side of differential checks (C06, C14)."""
import gc
import json
import sys


def main():
    from j2mverif import pipeline as pl
    from j2mverif.core import exc_sig
    from j2mverif.pipeline import dt
    keep = []
    out = sys.stdout
    for line in sys.stdin:
        line = line.strip()
        if not line:
            continue
        req = json.loads(line)
        op = req.get("op")
        if op == "quit":
            break
        try:
            n = int(req.get("garbage", 0))
            if n:
                # perturb the heap: id()-hashed objects land elsewhere from case to case and child to child
                keep.append([object() for _ in range(n)])
                if len(keep) > 3:
                    del keep[0]
                junk = [dict(a=i) for i in range(n // 2)]
                del junk
            if op == "render":
                b = pl.build(req["samples"], req["opts"], name=req.get("name", "Root"),
                             extra_models=[tuple(x) for x in req.get("extra_models", [])])
                opts = pl.norm_opts(req["opts"])
                nested = bool(opts["nested"] and (req.get("force_nested") or pl.is_tree(b.reg)))
                stats = dict(
                    merged=any(len(g) >= 2 for _, g in b.replaces),
                    multi_parent=any(len({p.parent.index for p in m.pointers if p.parent is not None}) >= 2 for m in b.reg.models),
                    lit2=any(isinstance(x, dt.StringLiteral) and len(x.literals) >= 2
                             for m in b.reg.models for t in m.type.values()
                             for x in ([t] + (list(t.iter_child()) if isinstance(t, dt.BaseType) else []))),
                    models=len(list(b.reg.models)), nested=nested)
                text = pl.render(b.reg, dict(opts, nested=nested), preamble=req.get("preamble"))
                resp = {"ok": True, "text": text, "stats": stats}
            elif op == "render_model":
                b = pl.build(req["samples"], req["opts"], name=req.get("name", "Root"))
                resp = {"ok": True, "text": pl.render_single_model(b.reg, req["opts"], req["index"])}
            elif op == "ping":
                resp = {"ok": True, "hashseed": __import__("os").environ.get("PYTHONHASHSEED"), "hash": hash("j2m")}
            else:
                resp = {"ok": False, "exc": ["HarnessBadOp", op]}
        except RecursionError:
            resp = {"ok": False, "exc": ["RecursionError", None]}
        except Exception as e:  # noqa: BLE001
            t, where = exc_sig(e)
            resp = {"ok": False, "exc": [t, where], "msg": str(e)[:300]}
        out.write(json.dumps(resp) + "\n")
        out.flush()
        if len(keep) % 50 == 0:
            gc.collect()


if __name__ == "__main__":
    main()
