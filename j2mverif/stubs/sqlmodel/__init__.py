"""Minimal stand-in for the sqlmodel package (not installed, not installable offline).

Only what emitted modules use: ``SQLModel`` as a base class accepting ``table=True`` and
``Field(default, primary_key=..., alias=...)``.  Built on pydantic.v1, like the emitted
pydantic code, so parsing semantics are pydantic's; nothing about SQLAlchemy is modelled.
"""
from pydantic.v1 import BaseModel as _BaseModel, Field as _Field


class SQLModel(_BaseModel):
    def __init_subclass__(cls, table=False, **kwargs):
        super().__init_subclass__(**kwargs)
        cls.__j2m_table__ = table


def Field(default=..., *, primary_key=False, **kwargs):
    return _Field(default, primary_key=primary_key, **kwargs)
