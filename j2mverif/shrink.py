"""Deterministic JSON delta-debugger: shrinks a failing case while it keeps failing *in the same bucket*.

Hypothesis' own shrinker is not used (5-minute cap, cannot preserve the bucket, unavailable for a case
loaded from a file).  Bounded by a number of oracle evaluations, never by time."""
import copy


class Budget(Exception):
    pass


def _paths(v, prefix=()):
    """all paths to sub-values, deepest last"""
    yield prefix
    if isinstance(v, dict):
        for k in list(v):
            yield from _paths(v[k], prefix + (k,))
    elif isinstance(v, list):
        for i in range(len(v)):
            yield from _paths(v[i], prefix + (i,))


def _get(v, path):
    for p in path:
        v = v[p]
    return v


def _set(root, path, new):
    root = copy.deepcopy(root)
    if not path:
        return new
    cur = root
    for p in path[:-1]:
        cur = cur[p]
    cur[path[-1]] = new
    return root


def _simpler(v):
    """candidate replacements for one value, simplest first"""
    if isinstance(v, list):
        n = len(v)
        if n:
            yield []
            if n > 1:
                half = n // 2
                yield v[:half]
                yield v[half:]
            for i in range(n):
                yield v[:i] + v[i + 1:]
            for i in range(n):      # hoist an element
                if isinstance(v[i], (list,)):
                    yield v[i]
    elif isinstance(v, dict):
        ks = list(v)
        if ks:
            yield {}
            for k in ks:
                yield {kk: vv for kk, vv in v.items() if kk != k}
            for k in ks:            # hoist a child object
                if isinstance(v[k], dict):
                    yield v[k]
    elif isinstance(v, str):
        if v:
            yield ""
            yield v[:len(v) // 2]
            yield v[len(v) // 2:]
            if len(v) > 1:
                yield v[:-1]
                yield v[1:]
            if v != "a":
                yield "a"
    elif isinstance(v, bool):
        if v:
            yield False
    elif isinstance(v, int):
        if v:
            yield 0
            yield v // 2
            if v < 0:
                yield -v
    elif isinstance(v, float):
        if v:
            yield 0.0
            yield float(int(v))
    if v is not None and not isinstance(v, (dict, list)):
        pass
    if isinstance(v, (dict, list)) and v:
        for leaf in (None, 0, ""):
            yield leaf


def size(v):
    import json
    return len(json.dumps(v, sort_keys=True, ensure_ascii=False, default=str))


def shrink(case, still_fails, valid=None, max_evals=1500):
    """still_fails(case) -> bool (same bucket). valid(case) -> bool (case stays in the property's domain)."""
    evals = [0]

    def test(c):
        if valid is not None:
            try:
                if not valid(c):
                    return False
            except Exception:
                return False
        if evals[0] >= max_evals:
            raise Budget()
        evals[0] += 1
        try:
            return bool(still_fails(c))
        except Exception:
            return False

    best = copy.deepcopy(case)
    try:
        improved = True
        while improved:
            improved = False
            for path in sorted(_paths(best), key=lambda p: (len(p), [str(x) for x in p])):
                try:
                    cur = _get(best, path)
                except (KeyError, IndexError, TypeError):
                    continue
                for cand in _simpler(cur):
                    new = _set(best, path, cand)
                    if size(new) >= size(best):
                        continue
                    if test(new):
                        best = new
                        improved = True
                        break
                if improved:
                    break
    except Budget:
        pass
    return best, evals[0]
