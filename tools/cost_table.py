#!/venv/bin/python
"""cost_table.py [thorough-log ...]  - rewrites the cost table of DESIGN.md section 8 from evidence/*.json (quick tier) and the given
runall logs (thorough tier; later logs win)."""
import json, os, re, sys
V = os.path.dirname(os.path.dirname(os.path.abspath(__file__)))
th = {}
for log in sys.argv[1:]:
    for ln in open(log, encoding="utf-8", errors="replace"):
        m = re.match(r"(C\d\d) rc=(\d+) (\d+)s C\d\d thorough seed=\d+: evaluations=(\d+) .*truncated=(\d+)", ln)
        if m and m.group(2) == "0":
            th[m.group(1)] = (int(m.group(4)), int(m.group(3)), int(m.group(5)))


def num(n):
    return f"{n:,}".replace(",", " ")


rows = []
for i in range(1, 20):
    pid = "C%02d" % i
    e = json.load(open(os.path.join(V, "evidence", pid + ".json")))
    q = f"{num(e['coverage']['evaluations'])} / {round(e.get('wall_s', 0))} s"
    if pid in th:
        n, sec, tr = th[pid]
        t = f"{num(n)} / {max(1, round(sec / 60))} min" + (f" ({num(tr)} more cut off by the shard budget under load)" if tr else "")
    else:
        t = "-"
    rows.append(f"| {pid} | {q} | {t} |")
p = os.path.join(V, "DESIGN.md")
s = open(p, encoding="utf-8").read()
head = "| check | quick: cases / wall | thorough: cases / wall |\n|---|---|---|\n"
a = s.index(head) + len(head)
b = s.index("\n\n", a)
s = s[:a] + "\n".join(rows) + s[b:]
open(p, "w", encoding="utf-8").write(s)
print("\n".join(rows))
