#!/venv/bin/python
"""addregress.py <Cxx> <name> <phase> <note>  < case.json   -> regress/<Cxx>/<name>.json"""
import json, os, sys
pid, name, phase, note = sys.argv[1:5]
case = json.load(sys.stdin)
d = os.path.join(os.path.dirname(os.path.dirname(os.path.abspath(__file__))), "regress", pid)
os.makedirs(d, exist_ok=True)
json.dump({"property": pid, "phase": phase, "note": note, "case": case}, open(os.path.join(d, name + ".json"), "w"), indent=1, ensure_ascii=False)
print(os.path.join(d, name + ".json"))
