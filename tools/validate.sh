#!/bin/bash
# validates MANIFEST.json and every evidence file against the schemas
python3-vt - <<'P'
import json, jsonschema, glob
m=json.load(open('/verif/MANIFEST.json')); jsonschema.validate(m, json.load(open('/root/.vp/MANIFEST.schema.json'))); print("manifest ok", len(m["checks"]), "checks")
s=json.load(open('/root/.vp/EVIDENCE.schema.json'))
for f in sorted(glob.glob('/verif/evidence/*.json')):
    e=json.load(open(f)); jsonschema.validate(e, s); print("ok", f, e["tier"], e["coverage"]["evaluations"], e["coverage"]["distinct_nontrivial"], e["violations"])
P
