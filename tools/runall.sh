#!/bin/bash
# runs every registered quick (or thorough) check in sequence: tools/runall.sh [quick|thorough]
tier="${1:-quick}"
cd "$(dirname "$0")/.."
for p in $(/venv/bin/python -c "import json;print(' '.join(c['property_id'] for c in json.load(open('MANIFEST.json'))['checks']))"); do
  s=$(date +%s); out=$(./check $p $tier 2>&1); rc=$?; e=$(date +%s)
  echo "$p rc=$rc $((e-s))s $(echo "$out" | grep -E "^C[0-9]+ (quick|thorough)" | tail -1)"
  echo "$out" | grep -E "^(VIOLATION|HARNESS)" | head -5
done
