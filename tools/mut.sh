#!/bin/bash
# Sensitivity self-test helper (run by hand, never by a registered check):
#   tools/mut.sh <name> <patch-file | revert:<commit>> <Cxx> [tier] [--keep]
# Copies /repo to a scratch tree, applies the change there, runs the property's check against it with J2M_REPO,
# prints the exit status and removes the scratch tree.
name="$1"; change="$2"; prop="$3"; tier="${4:-quick}"
case "$change" in revert:*|none) ;; /*) ;; *) change="$PWD/$change";; esac
here="$(cd "$(dirname "${BASH_SOURCE[0]}")/.." && pwd)"
dir="/tmp/j2m_mut_$name"
rm -rf "$dir"; mkdir -p "$dir/tree"
rsync -a --exclude .git --exclude '*.pyc' --exclude __pycache__ /repo/ "$dir/tree/"
cd "$dir/tree" || exit 2
case "$change" in
  revert:*) git -C /repo show "${change#revert:}" -- json_to_models | patch -R -p1 -s || { echo "PATCH FAILED"; exit 2; } ;;
  none) ;;
  *) patch -p1 -s < "$change" || { echo "PATCH FAILED"; exit 2; } ;;
esac
if [ -n "$MUT_RUN_TESTS" ]; then
  (cd "$dir/tree" && /venv/bin/python -m pytest -q -p no:cacheprovider -n 16 -x 2>&1 | tail -1)
fi
cd "$here"
J2M_REPO="$dir/tree" J2M_OUT="$dir/out" ./check "$prop" "$tier" > "$dir/log" 2>&1
rc=$?
echo "MUTANT $name $prop $tier -> exit $rc : $(grep -c '^VIOLATION' "$dir/log") violation lines; $(grep '^  bucket' "$dir/log" | cut -c1-150 | head -5 | tr '\n' ';')"
[ "$5" = "--keep" ] || rm -rf "$dir"
exit 0
