#!/venv/bin/python
"""hunt.py <Cxx> <phase> <n> <seed> <substring>: print generated cases whose skip reason / clause contains substring (debug aid)."""
import sys, os, json
sys.path.insert(0, os.path.dirname(os.path.dirname(os.path.abspath(__file__))))
from j2mverif.runner import load_prop
from hypothesis import given, settings, seed, HealthCheck, Phase
pid, phase, n, sd, sub = sys.argv[1], sys.argv[2], int(sys.argv[3]), int(sys.argv[4]), sys.argv[5]
mod = load_prop(pid)
ph = [p for p in mod.phases("quick") if p["name"] == phase][0]
found = []
@seed(sd)
@settings(max_examples=n, database=None, deadline=None, phases=[Phase.generate], suppress_health_check=list(HealthCheck))
@given(ph["strategy"])
def t(case):
    r = ph["check"](case)
    s = (r.skip or "") + " " + " ".join(c for c, _ in r.viol)
    if sub in s and len(found) < 5:
        found.append(case); print(json.dumps(case, ensure_ascii=False)); print(s); print([d[:600] for _, d in r.viol][:1])
t()
print("found", len(found))
