#!/venv/bin/python
"""seeded_table.py  - rewrites the seeded-changes table in DESIGN.md from seeded/*/meta.json.
The 'caught when first run' column of rows already in the table is kept; new ids take it from tools/first_run.json."""
import json, os, re
V = os.path.dirname(os.path.dirname(os.path.abspath(__file__)))
p = os.path.join(V, "DESIGN.md")
s = open(p, encoding="utf-8").read()
head = "| id | what was changed (author's summary, shortened) | caught by (quick tier) | caught when first run |\n|----|------|------|------|\n"
a = s.index(head) + len(head)
b = s.index("\n\n", a)
old = {}
for ln in s[a:b].splitlines():
    cells = [c.strip() for c in ln.strip().strip("|").split("|")]
    if len(cells) >= 4:
        old[cells[0]] = cells[-1]
first = json.load(open(os.path.join(V, "tools", "first_run.json")))


def key(i):
    m = re.match(r"C(\d+)-(?:r(\d+))?m(\d+)", i)
    return (int(m.group(1)), int(m.group(2) or 1), int(m.group(3)))


rows = []
for d in sorted(os.listdir(os.path.join(V, "seeded")), key=key):
    m = json.load(open(os.path.join(V, "seeded", d, "meta.json"), encoding="utf-8"))
    if not m.get("confirmed"):
        continue
    summ = (m.get("summary") or "").replace("|", "/").replace("\n", " ")[:140]
    caught = ", ".join(m.get("detected_by") or []) or "- (see note in meta.json)"
    rows.append(f"| {d} | {summ} | {caught} | {old.get(d) or first.get(d, '?')} |")
s = s[:a] + "\n".join(rows) + s[b:]
open(p, "w", encoding="utf-8").write(s)
print(len(rows), "rows")
