#!/venv/bin/python
"""Regenerates MANIFEST.json from the table below (run by hand after adding a property module)."""
import json
import os
import subprocess

HERE = os.path.dirname(os.path.dirname(os.path.abspath(__file__)))

# id -> (category, technique, level text, level note, design ref)
CHECKS = {
}

PENDING_REASON = "check not built yet in this session; the design for it is in DESIGN.md section 5"


def load_table():
    path = os.path.join(HERE, "tools", "manifest_table.json")
    return json.load(open(path, encoding="utf-8"))


def main():
    table = load_table()
    props = [json.loads(l) for l in open(os.path.join(HERE, "properties.jsonl"), encoding="utf-8") if l.strip()]
    fix_commits = subprocess.run(["git", "-C", "/repo", "log", "--format=%h %s"], capture_output=True, text=True).stdout
    checks = []
    na = []
    for p in props:
        pid = p["id"]
        ent = table["checks"].get(pid)
        if ent and os.path.exists(os.path.join(HERE, "j2mverif", "props", pid.lower() + ".py")):
            checks.append({
                "property_id": pid,
                "quick_cmd": f"./check {pid} quick",
                "thorough_cmd": f"./check {pid} thorough",
                "evidence_file": f"/verif/evidence/{pid}.json",
                "replay_cmd_template": f"./check {pid} --replay {{path}}",
                "engine": "j2mverif",
                "level_claimed": {"category": ent["category"], "text": ent["text"], "design_ref": ent["design_ref"]},
                "level_note": ent["note"],
                "technique": ent["technique"],
            })
        else:
            na.append({"property_id": pid, "reason": (table.get("not_applicable", {}).get(pid) or PENDING_REASON)})
    manifest = {
        "version": 1,
        "setup_cmd": "/venv/bin/pip install --no-index --find-links /opt/veriftools/wheels hypothesis >/dev/null 2>&1; "
                     "/venv/bin/python -c 'import hypothesis, json_to_models'",
        "hooks": {
            "guard": "J2M_VERIF",
            "enable": "no hooks are needed: every observation point is a public return value, emitted text, exit status or file; "
                      "checks import json_to_models from /repo's working tree in a fresh interpreter",
            "baseline_off_cmd": "cd /repo && /venv/bin/python -m pytest -ra -q -p no:cacheprovider --timeout=900 --continue-on-collection-errors",
            "source_commits": [],
            "add_only": True,
        },
        "engines": [{
            "name": "j2mverif",
            "path": "/verif/j2mverif",
            "serves_properties": [c["property_id"] for c in checks],
            "kind_free_text": "Hypothesis 6.168 strategies (collect mode, 16 spawn workers, seeded by VERIF_SEED) + exhaustive "
                              "itertools enumeration of finite sub-domains + own bucket-preserving JSON delta-debugger; "
                              "explicit oracles (reference models, differential, metamorphic, round trip)",
        }],
        "checks": checks,
        "not_applicable": na,
        "notes": table.get("notes", ""),
    }
    with open(os.path.join(HERE, "MANIFEST.json"), "w", encoding="utf-8") as f:
        json.dump(manifest, f, indent=1, ensure_ascii=False)
        f.write("\n")
    print("checks:", [c["property_id"] for c in checks], "not_applicable:", [n["property_id"] for n in na])


if __name__ == "__main__":
    main()
