#!/venv/bin/python
"""mkmut.py <name> <relative file> : reads 'OLD\n====\nNEW' from stdin and writes tools/mutants/<name>.diff (unified, -p1)."""
import sys, difflib, os
name, rel = sys.argv[1], sys.argv[2]
old, new = sys.stdin.read().split("\n====\n")
new = new[:-1] if new.endswith("\n") else new
src = open(os.path.join("/repo", rel)).read()
assert src.count(old) == 1, (src.count(old), old)
dst = src.replace(old, new)
d = difflib.unified_diff(src.splitlines(True), dst.splitlines(True), "a/" + rel, "b/" + rel)
out = os.path.join(os.path.dirname(os.path.abspath(__file__)), "mutants", name + ".diff")
mode = "a" if os.environ.get("APPEND") else "w"
open(out, mode).write("".join(d))
print(out)
