#!/venv/bin/python
"""seed_eval.py <mutant dir with patch.diff/demo.py/meta.json> <seeded id> <Cxx> [more Cxx ...] [--tier quick] [--keep-only-if-valid]

Confirms a seeded change independently (applies to a scratch copy of /repo, unedited test suite must pass, demo must fail with it and
pass without it), runs the given checks against it and records everything in /verif/seeded/<id>/.  Never touches /repo."""
import json
import os
import shutil
import subprocess
import sys

VERIF = os.path.dirname(os.path.dirname(os.path.abspath(__file__)))
PY = "/venv/bin/python"


def sh(cmd, cwd=None, env=None, timeout=1800):
    p = subprocess.run(cmd, shell=True, cwd=cwd, env=env, capture_output=True, text=True, timeout=timeout)
    return p.returncode, (p.stdout + p.stderr)


def main():
    args = [a for a in sys.argv[1:] if not a.startswith("--")]
    tier = "quick"
    if "--tier" in sys.argv:
        tier = sys.argv[sys.argv.index("--tier") + 1]
        args.remove(tier)
    src, sid, props = args[0], args[1], args[2:]
    scratch = f"/tmp/j2m_seed_{sid}"
    shutil.rmtree(scratch, ignore_errors=True)
    os.makedirs(scratch)
    clean, mut = os.path.join(scratch, "clean"), os.path.join(scratch, "tree")
    for d in (clean, mut):
        sh(f"rsync -a --exclude .git --exclude MUTANTS --exclude '*.pyc' --exclude __pycache__ /repo/ {d}/")
    rc, out = sh(f"patch -p1 -s < {os.path.abspath(src)}/patch.diff", cwd=mut)
    rec = {"id": sid, "source": src, "patch_applies": rc == 0}
    if rc != 0:
        print("PATCH DOES NOT APPLY", out[-300:])
        shutil.rmtree(scratch, ignore_errors=True)
        return 1
    env = dict(os.environ, PYTHONPATH=mut, PYTHONDONTWRITEBYTECODE="1")
    rc, out = sh(f"{PY} -m pytest -q -p no:cacheprovider -n 16 2>&1 | tail -1", cwd=mut, env=env)
    rec["tests_with_change"] = out.strip()
    # demos may locate the tree relative to their own path (<tree>/MUTANTS/m<i>/demo.py): keep that layout in both copies
    for d in (mut, clean):
        os.makedirs(os.path.join(d, "MUTANTS", "mx"), exist_ok=True)
        shutil.copy(os.path.join(src, "demo.py"), os.path.join(d, "MUTANTS", "mx", "demo.py"))
    rc_m, out_m = sh(f"{PY} MUTANTS/mx/demo.py", cwd=mut, env=env, timeout=900)
    env_c = dict(os.environ, PYTHONPATH=clean, PYTHONDONTWRITEBYTECODE="1")
    rc_c, out_c = sh(f"{PY} MUTANTS/mx/demo.py", cwd=clean, env=env_c, timeout=900)
    rec["demo_with_change_exit"] = rc_m
    rec["demo_without_change_exit"] = rc_c
    rec["demo_with_change_tail"] = out_m[-400:]
    valid = rec["tests_with_change"].startswith("428 passed, 7 xfailed") and rc_m != 0 and rc_c == 0
    rec["confirmed"] = valid
    results = {}
    for pid in props:
        outdir = os.path.join(scratch, "out_" + pid)
        e = dict(os.environ, J2M_REPO=mut, J2M_OUT=outdir)
        rc, out = sh(f"./check {pid} {tier}", cwd=VERIF, env=e, timeout=3600)
        buckets = [ln.strip()[:200] for ln in out.splitlines() if ln.startswith("  bucket")]
        results[pid] = {"exit": rc, "violation_lines": sum(1 for ln in out.splitlines() if ln.startswith("VIOLATION")),
                        "buckets": buckets[:6], "tier": tier}
    rec["checks"] = results
    rec["detected_by"] = [p for p, r in results.items() if r["exit"] == 1 and r["violation_lines"] > 0]
    try:
        meta = json.load(open(os.path.join(src, "meta.json")))
    except Exception:  # noqa: BLE001
        meta = {}
    dest = os.path.join(VERIF, "seeded", sid)
    os.makedirs(dest, exist_ok=True)
    shutil.copy(os.path.join(src, "patch.diff"), os.path.join(dest, "patch.diff"))
    shutil.copy(os.path.join(src, "demo.py"), os.path.join(dest, "demo.py"))
    meta_out = {"breaks_property": meta.get("property"), "summary": meta.get("summary"), "needs_to_manifest": meta.get("needs"),
                "author": "independent sub-agent (given only the property text and a scratch worktree)",
                "what_was_run": {
                    "apply": "patch -p1 < patch.diff on a scratch copy of /repo (never in /repo)",
                    "tests_with_change": rec["tests_with_change"],
                    "demo_exit_with_change": rc_m, "demo_exit_without_change": rc_c,
                    "checks": results},
                "confirmed": valid, "detected_by": rec["detected_by"]}
    json.dump(meta_out, open(os.path.join(dest, "meta.json"), "w"), indent=1, ensure_ascii=False)
    print(f"{sid}: confirmed={valid} tests='{rec['tests_with_change']}' demo(with/without)={rc_m}/{rc_c} detected_by={rec['detected_by']}")
    for p, r in results.items():
        print(f"   {p}: exit {r['exit']} {r['buckets'][:2]}")
    shutil.rmtree(scratch, ignore_errors=True)
    return 0


if __name__ == "__main__":
    sys.exit(main())
