import sys, types, uuid, json, typing
from json_to_models.generator import MetadataGenerator
from json_to_models.registry import ModelRegistry, ModelFieldsEquals, ModelFieldsPercentMatch, ModelFieldsNumberMatch
from json_to_models.models.base import generate_code, GenericModelCodeGenerator
from json_to_models.models.pydantic import PydanticModelCodeGenerator
from json_to_models.models.attr import AttrsModelCodeGenerator
from json_to_models.models.dataclasses import DataclassModelCodeGenerator
from json_to_models.models.sqlmodel import SqlModelCodeGenerator
from json_to_models.models.structure import compose_models, compose_models_flat
from json_to_models.dynamic_typing import StringSerializableRegistry, IntString, FloatString, BooleanString, IsoDateString, IsoTimeString, IsoDatetimeString, registry as default_registry

GENS = dict(base=GenericModelCodeGenerator, pydantic=PydanticModelCodeGenerator, attrs=AttrsModelCodeGenerator,
            dataclasses=DataclassModelCodeGenerator, sqlmodel=SqlModelCodeGenerator)

def full_registry(dt=True):
    r = StringSerializableRegistry()
    r.add(cls=IntString)
    r.add(replace_types=(IntString,), cls=FloatString)
    r.add(cls=BooleanString)
    if dt:
        r.add(cls=IsoDateString); r.add(cls=IsoTimeString); r.add(cls=IsoDatetimeString)
    return r

def build(samples, name="Root", cmps=(), dkr=None, dkf=None, sreg=None):
    gen = MetadataGenerator(str_types_registry=sreg, dict_keys_regex=dkr, dict_keys_fields=dkf)
    reg = ModelRegistry(*cmps)
    meta = gen.generate(*samples)
    reg.process_meta_data(meta, model_name=name)
    rep = reg.merge_models(generator=gen)
    reg.generate_names()
    return gen, reg, rep

def code(reg, fw="pydantic", nested=False, **kw):
    st = (compose_models if nested else compose_models_flat)(reg.models_map)
    return generate_code(st, GENS[fw], class_generator_kwargs=kw)

def load(src):
    name = "m_" + uuid.uuid4().hex
    m = types.ModuleType(name); sys.modules[name] = m
    exec(compile(src, name, "exec"), m.__dict__)
    return m

def run(samples, fw="pydantic", nested=False, cmps=(), dkr=None, dkf=None, sreg=None, **kw):
    gen, reg, rep = build(samples, cmps=cmps, dkr=dkr, dkf=dkf, sreg=sreg)
    src = code(reg, fw, nested, **kw)
    return src
