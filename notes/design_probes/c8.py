import itertools, sys, copy, collections, traceback
from inh import *
from json_to_models.dynamic_typing import *
sreg = full_registry(False)
gen = MetadataGenerator(str_types_registry=sreg)
def U():
    base = [lambda: int, lambda: float, lambda: bool, lambda: str, lambda: Null, lambda: Unknown,
            lambda: IntString, lambda: FloatString, lambda: BooleanString,
            lambda: StringLiteral({"a"}), lambda: StringLiteral({"b"}), lambda: StringLiteral({"x"*30}),
            lambda: {"a": int}, lambda: {"a": str, "b": int}, lambda: {"a": Null}]
    out = list(base)
    for b in [lambda: int, lambda: float, lambda: Null, lambda: Unknown, lambda: IntString, lambda: StringLiteral({"a"}), lambda: {"a": int}, lambda: str]:
        out.append(lambda b=b: DList(b()))
        out.append(lambda b=b: DDict(b()))
        out.append(lambda b=b: DOptional(b()))
    out.append(lambda: DList(DUnion(int, Null)))
    out.append(lambda: DList(DUnion(Unknown, Null)))
    out.append(lambda: DUnion(int, str))
    out.append(lambda: DUnion(IntString, Null))
    return out
UNI = U()
print(len(UNI))
def nf_violations(t, top=True, in_container=False, path=""):
    v=[]
    if isinstance(t, dict):
        for k,x in t.items(): v+=nf_violations(x, True, False, path+"."+k)
        return v
    if isinstance(t, DUnion):
        if len(t.types)<2: v.append(("union arity", len(t.types), path))
        hs=[get_hash_string(x) for x in t.types]
        if len(set(hs))!=len(hs): v.append(("dup", path))
        for x in t.types:
            if isinstance(x, DUnion): v.append(("nested union", path))
            if isinstance(x, DOptional): v.append(("optional in union", path))
            if x is Null: v.append(("null in union", path))
            if x is Unknown: v.append(("unknown in union", path))
        if int in t.types and float in t.types: v.append(("int+float", path))
        strish=[x for x in t.types if x is str or isinstance(x, StringLiteral) or (isclass(x) and issubclass(x, StringSerializable))]
        if str in t.types and len(strish)>1: v.append(("str coexists", path))
        if sum(isinstance(x, DList) for x in t.types)>1: v.append(("two lists", path))
        if sum(isinstance(x, DDict) for x in t.types)>1: v.append(("two dicts", path))
        if sum(isinstance(x, dict) for x in t.types)>1: v.append(("two raw models", path))
        for x in t.types: v+=nf_violations(x, False, False, path+"|")
        return v
    if isinstance(t, DOptional):
        if isinstance(t.type, DOptional): v.append(("opt opt", path))
        return v+nf_violations(t.type, False, False, path+"?")
    if isinstance(t, (DList, DDict)):
        return nf_violations(t.type, False, True, path+"[]")
    if isinstance(t, StringLiteral):
        if t.overflowed or not t.literals: v.append(("overflowed literal left", path))
    return v
buckets=collections.Counter(); ex={}
n=0
for k in (1,2,3):
    for combo in itertools.combinations_with_replacement(range(len(UNI)), k):
        n+=1
        mk = lambda: {"f": DUnion(*[UNI[i]() for i in combo])} if k>1 else {"f": UNI[combo[0]]()}
        try:
            r1 = gen.optimize_type(mk())
            h1 = get_hash_string(r1["f"]) if not isinstance(r1["f"], dict) else str(r1["f"])
            s1 = str(r1)
            r2 = gen.optimize_type(r1)
            s2 = str(r2)
        except Exception as e:
            tb = traceback.extract_tb(e.__traceback__)[-1]
            key=("EXC", type(e).__name__, tb.lineno); buckets[key]+=1; ex.setdefault(key, [str(UNI[i]()) for i in combo]); continue
        if s1!=s2:
            key=("not idempotent",); buckets[key]+=1; ex.setdefault(key, ([str(UNI[i]()) for i in combo], s1, s2))
        for viol in nf_violations(r1):
            key=("NF", viol[0]); buckets[key]+=1; ex.setdefault(key, ([str(UNI[i]()) for i in combo], s1))
print(n, buckets)
for k,v in ex.items(): print(k, v)
