import re, sys, collections, traceback, inspect, ast
from hypothesis import given, settings, strategies as st, HealthCheck, seed
from inh import *
import typing
from fz3b_util import *
keys = st.sampled_from(["a","b","c","items","x_y"])
strs = st.sampled_from(["", "foo", "1", "true", "2018-01-02", "x"*25])
leaf = st.one_of(st.none(), st.booleans(), st.integers(-3,3), strs)
val = st.recursive(leaf, lambda c: st.one_of(st.lists(c, max_size=3), st.dictionaries(keys, c, max_size=3)), max_leaves=8)
objs = st.lists(st.dictionaries(keys, val, max_size=4), min_size=1, max_size=3)
N=collections.Counter(); buckets=collections.Counter(); examples={}
def classes_of(src):
    """ast-based: map class name path -> (list of (field, annotation src, default src))"""
    tree = ast.parse(src); out={}
    def visit(node, path):
        for n in node.body:
            if isinstance(n, ast.ClassDef):
                p = path+(n.name,)
                fields=[(x.target.id, ast.unparse(x.annotation), ast.unparse(x.value) if x.value else None) for x in n.body if isinstance(x, ast.AnnAssign)]
                out[p]=(fields, [ast.unparse(d) for d in n.decorator_list], [ast.unparse(b) for b in n.bases])
                visit(n, p)
    visit(tree, ())
    return out
@settings(max_examples=int(sys.argv[1]), deadline=None, database=None, suppress_health_check=list(HealthCheck))
@seed(1)
@given(objs, st.sampled_from(["base","pydantic","attrs","dataclasses"]), st.sampled_from([(), (ModelFieldsEquals(),), (ModelFieldsPercentMatch(.5),)]))
def t(samples, fw, cmps):
    sreg = full_registry(True)
    gen, reg, rep = build(samples, sreg=sreg, cmps=cmps)
    tree = is_tree(reg)
    N[tree]+=1
    flat = code(reg, fw, False); 
    cf = classes_of(flat)
    if len(cf) != len(reg.models): buckets["flat count"]+=1; examples["flat count"]=samples
    if tree:
        if list(cf)[0] != ("Root",): buckets["root not first"]+=1; examples["root not first"]=samples
        nested = code(reg, fw, True)
        cn = classes_of(nested)
        a = {p[-1]: v for p, v in cf.items()}; b = {p[-1]: v for p, v in cn.items()}
        if a != b:
            buckets["differ"]+=1
            if "differ" not in examples or len(str(samples))<len(str(examples["differ"][0])): examples["differ"]=(samples, flat, nested)
        # placement: each nested class inside the class that references it
        for p in cn:
            if len(p)>1:
                parent = p[-2]; m=[x for x in reg.models if x.name==p[-1]][0]
                par = {q.parent.name for q in m.pointers if q.parent}
                if par != {parent}: buckets["misplaced"]+=1; examples["misplaced"]=(samples, nested)
            else:
                if p != ("Root",): buckets["nonroot toplevel"]+=1; examples["nonroot toplevel"]=(samples, nested)
t()
print(N, buckets)
for k,v in examples.items():
    print(k); [print(x) for x in (v if isinstance(v, tuple) else (v,))]
