import re, sys, collections, traceback, inspect, dataclasses, datetime
sys.path.insert(0, "/tmp/probe/stubs")
from hypothesis import given, settings, strategies as st, HealthCheck, seed
from inh import *
import typing, attr
from typing import Any, Dict, List, Optional, Union, Literal
from fz3b_util import *
keys = st.sampled_from(["a","b","fooBar","list","id","pk","x1y","items","q r"])
strs = st.sampled_from(["", "foo", "bar", "1", "1.5", "true", "2018-01-02", "12:30", "2018-01-02T03:04:05", "x"*25, "a\"b"])
leaf = st.one_of(st.none(), st.booleans(), st.integers(-3,3), st.just(0.5), strs)
val = st.recursive(leaf, lambda c: st.one_of(st.lists(c, max_size=3), st.dictionaries(keys, c, max_size=3)), max_leaves=8)
objs = st.lists(st.dictionaries(keys, val, max_size=4), min_size=1, max_size=3)
buckets=collections.Counter(); examples={}
def rec(k, ex):
    buckets[k]+=1
    if k not in examples or len(str(ex)) < len(str(examples[k])): examples[k]=ex
def denote(t, fw, classes, maxlit):
    d = lambda x: denote(x, fw, classes, maxlit)
    if isinstance(t, ModelPtr): return classes[t.type.index]
    if isinstance(t, DOptional): return Optional[d(t.type)]
    if isinstance(t, DUnion): return Union[tuple(d(x) for x in t.types)]
    if isinstance(t, DList): return List[d(t.type)]
    if isinstance(t, DDict): return Dict[str, d(t.type)]
    if isinstance(t, StringLiteral):
        if fw == "attrs" or t.overflowed or not (len(t.literals) < maxlit): return str
        return Literal[tuple(sorted(t.literals))]
    if t is Null: return type(None)
    if t is Unknown: return Any
    if isclass(t) and issubclass(t, StringSerializable):
        return t.actual_type if fw in ("pydantic","sqlmodel") else t
    return t
@settings(max_examples=int(sys.argv[1]), deadline=None, database=None, suppress_health_check=list(HealthCheck))
@seed(1)
@given(objs, st.booleans(), st.sampled_from(["base","pydantic","attrs","dataclasses","sqlmodel"]), st.booleans(), st.integers(0, 4), st.booleans())
def t(samples, dt, fw, nested, maxlit, meta):
    sreg = full_registry(dt)
    gen, reg, rep = build(samples, sreg=sreg)
    if nested and not is_tree(reg): nested=False
    kw = dict(max_literals=maxlit)
    if fw in ("attrs","dataclasses"): kw["meta"]=meta
    try:
        src = code(reg, fw, nested, **kw)
        m = load(src)
        out=[]
        for k, v in list(vars(m).items()):
            if inspect.isclass(v) and v.__module__ == m.__name__: walk(v, {}, out)
        byname = {c.__name__: (c, ns) for c, ns, p in out}
        assert len(byname) == len(reg.models), "class count"
        classes = {mm.index: byname[mm.name][0] for mm in reg.models}
        if fw in ("pydantic","sqlmodel"):
            for c, ns, p in out:
                ns = dict(ns); ns.update({k:v for k,v in vars(c).items() if inspect.isclass(v)})
                c.update_forward_refs(**ns)
        for mm in reg.models:
            cls, ns = byname[mm.name]
            ns = dict(ns); ns.update(vars(cls))
            hints = typing.get_type_hints(cls, vars(m), ns)
            g = GENS[fw](mm, **kw)
            exp_fields = {k: t for k, t in mm.type.items() if not (fw in ("pydantic","sqlmodel") and t is Null)}
            ann = {k: v for k, v in hints.items() if k in getattr(cls, "__annotations__", {})}
            names = {}
            for k, t in exp_fields.items():
                n = g.convert_field_name(k)
                names[n]=k
                assert n in ann, ("missing field", k, n, list(ann))
                exp = denote(t, fw, classes, maxlit)
                assert ann[n] == exp, ("annotation", k, ann[n], exp)
                opt = isinstance(t, DOptional)
                cont = opt and (list if isinstance(t.type, DList) else dict if isinstance(t.type, DDict) else None)
                if fw in ("pydantic","sqlmodel"):
                    f = cls.__fields__[n]
                    assert f.alias == k, ("alias", k, f.alias)
                    assert f.required == (not opt), ("required", k)
                    if opt: assert f.default == (cont() if cont else None), ("default", k, f.default)
                elif fw == "attrs":
                    a = getattr(attr.fields(cls), n)
                    if not opt: assert a.default is attr.NOTHING, ("default", k)
                    elif cont: assert isinstance(a.default, attr.Factory) and a.default.factory is cont, ("factory", k)
                    else: assert a.default is None
                    if meta and n != k: assert a.metadata.get("J2M_ORIGINAL_FIELD") == k, ("meta", k)
                elif fw == "dataclasses":
                    a = {x.name: x for x in dataclasses.fields(cls)}[n]
                    if not opt: assert a.default is dataclasses.MISSING and a.default_factory is dataclasses.MISSING, ("default", k)
                    elif cont: assert a.default_factory is cont, ("factory", k)
                    else: assert a.default is None
                    if meta and n != k: assert a.metadata.get("J2M_ORIGINAL_FIELD") == k, ("meta", k)
            assert set(ann) == set(names), ("extra fields", set(ann)-set(names))
    except Exception as e:
        msg = e.args[0] if isinstance(e, AssertionError) and e.args else str(e)
        key = (fw, nested, type(e).__name__, str(msg[0] if isinstance(msg, tuple) else msg)[:80])
        rec(key, (samples, kw, str(msg)[:300]))
t()
for k,v in sorted(buckets.items(), key=str): print(v, k, examples[k])
