import sys, collections, traceback, re
from hypothesis import given, settings, strategies as st, HealthCheck, seed
from inh import *
from fz3b_util import is_tree
keys = st.sampled_from(["a","b","c","items","List","x y","naïve"])
strs = st.sampled_from(["", "foo", "1", "true", "2018-01-02", "x"*25])
leaf = st.one_of(st.none(), st.booleans(), st.integers(-3,3), strs)
val = st.recursive(leaf, lambda c: st.one_of(st.lists(c, max_size=3), st.dictionaries(keys, c, max_size=3)), max_leaves=8)
objs = st.lists(st.dictionaries(keys, val, max_size=4), min_size=1, max_size=3)
render = st.tuples(st.sampled_from(["base","pydantic","attrs","dataclasses","sqlmodel"]), st.booleans())
buckets=collections.Counter(); examples={}
@settings(max_examples=int(sys.argv[1]), deadline=None, database=None, suppress_health_check=list(HealthCheck))
@seed(1)
@given(objs, st.lists(render, min_size=2, max_size=4), st.booleans())
def t(samples, renders, uni):
    sreg = full_registry(True)
    def fresh(fw, nested):
        gen, reg, rep = build(samples, sreg=full_registry(True))
        if nested and not is_tree(reg): nested=False
        return code(reg, fw, nested, convert_unicode=uni)
    gen, reg, rep = build(samples, sreg=sreg)
    tree = is_tree(reg)
    for fw, nested in renders:
        nested = nested and tree
        got = code(reg, fw, nested, convert_unicode=uni)
        exp = fresh(fw, nested)
        if got != exp:
            buckets["differ"]+=1
            if "differ" not in examples or len(str(samples))<len(str(examples["differ"][0])): examples["differ"]=(samples, renders, got, exp)
            return
t()
print(buckets)
for k,v in examples.items():
    for x in v: print(x)
