import itertools, sys, time
from pl import *
from json_to_models.registry import ModelCmp
from json_to_models.dynamic_typing import ModelPtr, ModelMeta
class TableCmp(ModelCmp):
    def __init__(self, edges): self.edges=edges
    def cmp(self, a, b):
        ia = next(iter(k for k in a if k.startswith("m"))); ib = next(iter(k for k in b if k.startswith("m")))
        return frozenset((int(ia[1:]), int(ib[1:]))) in self.edges
def comps(n, edges):
    parent=list(range(n))
    def f(x):
        while parent[x]!=x: x=parent[x]
        return x
    for e in edges:
        a,b=tuple(e); parent[f(a)]=f(b)
    groups={}
    for i in range(n): groups.setdefault(f(i), set()).add(i)
    return {frozenset(g) for g in groups.values()}
n=int(sys.argv[1]); pairs=[frozenset(p) for p in itertools.combinations(range(n),2)]
bad=0; t0=time.time(); cnt=0
for mask in range(2**len(pairs)):
    edges={p for i,p in enumerate(pairs) if mask>>i&1}
    # root sample has fields c0..c{n-1} each an object with unique key m{i} and common key 'v'
    sample={f"c{i}": {f"m{i}": i, "v": "s"} for i in range(n)}
    sample["mR"]=0
    gen=MetadataGenerator(str_types_registry=full_registry(False))
    reg=ModelRegistry(TableCmp({e for e in edges}))
    # root has key mR -> id 'R' not int; give root index n
    sample={f"c{i}": {f"m{i}": i, "v": "s"} for i in range(n)}; sample[f"m{n}"]=0
    reg.process_meta_data(gen.generate(sample), model_name="Root")
    before={next(k for k in m.type if k.startswith("m")): m for m in reg.models}
    rep=reg.merge_models(gen)
    after=list(reg.models)
    exp={g for g in comps(n+1, edges)}
    got=set()
    for m in after:
        got.add(frozenset(int(k[1:]) for k in m.type if k.startswith("m")))
    cnt+=1
    if got!=exp:
        bad+=1
        if bad<5: print("MISMATCH", edges, got, exp)
    repgot={frozenset(int(k[1:]) for k in m.type if k.startswith("m")) for m,_ in rep}
    if repgot!={g for g in exp if len(g)>1}:
        bad+=1
        if bad<5: print("REP MISMATCH", edges, repgot)
print(cnt, bad, time.time()-t0)
