import sys, os, json, re, tempfile, collections, ast
from hypothesis import given, settings, strategies as st, HealthCheck, seed
from pl import *
from json_to_models import cli as climod
from json_to_models.dynamic_typing import registry as GREG
SNAP = (list(GREG.types), set(GREG.replaces))
keys = st.sampled_from(["a","b","c","items","n_1","n_2","fooBar"])
strs = st.sampled_from(["", "foo", "bar", "1", "1.5", "true", "2018-01-02", "12:30", "x"*25])
leaf = st.one_of(st.none(), st.booleans(), st.integers(-3,3), strs)
val = st.recursive(leaf, lambda c: st.one_of(st.lists(c, max_size=3), st.dictionaries(keys, c, max_size=3)), max_leaves=8)
objs = st.lists(st.dictionaries(keys, val, max_size=4), min_size=1, max_size=4)
opts = st.fixed_dictionaries(dict(
    fw=st.sampled_from(["base","pydantic","attrs","dataclasses","sqlmodel"]), nested=st.booleans(), dt=st.booleans(),
    merge=st.sampled_from([None, ["exact"], ["percent_50"], ["number_2","percent_90"], ["percent","number"]]),
    dkr=st.sampled_from([None, [r"n_\d"], [r"[ab]", r"n_\d"]]), dkf=st.sampled_from([None, ["items"], ["a","fooBar"]]),
    maxlit=st.sampled_from([None, 0, 2, 15]), conv=st.booleans(), nouni=st.booleans(),
    disable=st.sampled_from([None, ["int"], ["float","BooleanString"], ["date"]]), preamble=st.sampled_from([None, "# hi", "  X = 1\n\n"])))
tmp = tempfile.mkdtemp()
bad=collections.Counter(); ex={}
def cmp_of(m):
    if m=="exact": return ModelFieldsEquals()
    name,_,arg = m.partition("_")
    if name=="percent": return ModelFieldsPercentMatch(float(arg)/100) if arg else ModelFieldsPercentMatch()
    if name=="number": return ModelFieldsNumberMatch(int(arg)) if arg else ModelFieldsNumberMatch()
@settings(max_examples=int(sys.argv[1]), deadline=None, database=None, suppress_health_check=list(HealthCheck))
@seed(int(__import__("os").environ.get("PSEED","1")))
@given(objs, opts, st.integers(1,3))
def t(samples, o, nfiles):
    # split samples over files
    chunks=[samples[i::nfiles] for i in range(nfiles)]
    argv=["json2models"]
    order=[]
    for i,ch in enumerate(chunks):
        p=os.path.join(tmp, f"f{i}.json")
        if i%2==0: json.dump(ch, open(p,"w")); argv += ["-m","Root",p]
        else: json.dump({"x":{"y":ch}}, open(p,"w")); argv += ["-m","Root","x.y",p]
        order += ch
    argv += ["-f", o["fw"], "-s", "nested" if o["nested"] else "flat"]
    if o["dt"]: argv.append("--datetime")
    if o["merge"]: argv += ["--merge", *o["merge"]]
    if o["dkr"]: argv += ["--dkr", *o["dkr"]]
    if o["dkf"]: argv += ["--dkf", *o["dkf"]]
    if o["maxlit"] is not None: argv += ["--max-strings-literals", str(o["maxlit"])]
    if o["conv"]: argv.append("--strings-converters")
    if o["nouni"]: argv.append("--no-unidecode")
    if o["disable"]: argv += ["--disable-str-serializable-types", *o["disable"]]
    if o["preamble"] is not None: argv += ["--preamble", o["preamble"]]
    # expected
    sreg = full_registry(o["dt"])
    for n in (o["disable"] or []): sreg.remove_by_name(n)
    cmps = tuple(cmp_of(m) for m in o["merge"]) if o["merge"] else ()
    try:
        gen = MetadataGenerator(str_types_registry=sreg, dict_keys_regex=[f"^{r}$" for r in (o["dkr"] or [])], dict_keys_fields=o["dkf"])
        reg = ModelRegistry(*cmps)
        reg.process_meta_data(gen.generate(*order), model_name="Root")
        reg.merge_models(gen); reg.generate_names()
        stt = (compose_models if o["nested"] else compose_models_flat)(reg.models_map)
        kw = dict(post_init_converters=o["conv"], convert_unicode=not o["nouni"], max_literals=10 if o["maxlit"] is None else o["maxlit"])
        exp = generate_code(stt, GENS[o["fw"]], class_generator_kwargs=kw, preamble=(o["preamble"].strip() or None) if o["preamble"] else None)
    except Exception as e:
        exp = ("EXC", type(e).__name__)
    GREG.types[:] = SNAP[0]; GREG.replaces.clear(); GREG.replaces.update(SNAP[1])
    old=sys.argv; sys.argv=argv
    try:
        c = climod.Cli(); c.parse_args(argv[1:]); got = c.run()
        hdr = c.version_string
        m = re.match(r'r"""\n.*?\n"""\n', got, re.S); got = got[m.end():]
    except Exception as e:
        got = ("EXC", type(e).__name__)
    finally:
        sys.argv=old
    if got != exp:
        bad["diff"]+=1
        if "d" not in ex or len(str(samples))<len(str(ex["d"][0])): ex["d"]=(samples,o,got,exp)
t()
print(bad)
for v in ex.values():
    for x in v: print(x)
