from inh import *
def canon_t(t, sig):
    c = lambda x: canon_t(x, sig)
    if isinstance(t, ModelPtr): return ("M", sig[t.type.index])
    if isinstance(t, DOptional): return ("O", c(t.type))
    if isinstance(t, DUnion): return ("U", tuple(sorted(set(map(c, t.types)), key=repr)))
    if isinstance(t, DList): return ("L", c(t.type))
    if isinstance(t, DDict): return ("D", c(t.type))
    if isinstance(t, StringLiteral): return ("Lit", tuple(sorted(t.literals))) if not t.overflowed else "str"
    if t is Null: return "None"
    if t is Unknown: return "Any"
    if isclass(t): return t.__name__
    raise AssertionError(t)
import hashlib
def canon(reg):
    sig = {m.index: "0" for m in reg.models}
    for _ in range(len(sig)+1):
        sig = {m.index: hashlib.md5(repr(tuple(sorted((k, canon_t(v, sig)) for k, v in m.type.items()))).encode()).hexdigest()[:8] for m in reg.models}
    # readable
    return sorted({repr(tuple(sorted((k, canon_t(v, sig)) for k, v in m.type.items()))) for m in reg.models})
