import sys, collections, itertools
from hypothesis import given, settings, strategies as st, HealthCheck, seed
from canon import *
keys = st.sampled_from(["a","b","c","d"])
strs = st.sampled_from(["foo", "bar", "1", "1.5", "true", "2018-01-02", "x"*25])
leaf = st.one_of(st.none(), st.booleans(), st.integers(0,1), st.just(0.5), strs)
val = st.recursive(leaf, lambda c: st.one_of(st.lists(c, max_size=3), st.dictionaries(keys, c, max_size=3)), max_leaves=6)
objs = st.lists(st.dictionaries(keys, val, max_size=3), min_size=2, max_size=3)
@settings(max_examples=int(sys.argv[1]), deadline=None, database=None, suppress_health_check=list(HealthCheck))
@seed(int(sys.argv[2]))
@given(objs, st.permutations([0,1,2]), st.sampled_from([(ModelFieldsEquals(),), (), (ModelFieldsPercentMatch(.5),), (ModelFieldsNumberMatch(2),)]))
def t(samples, perm, cmps):
    sreg = full_registry(False)
    p = [samples[i] for i in perm if i < len(samples)]
    try:
        c1 = canon(build(samples, cmps=cmps, sreg=sreg)[1])
        c2 = canon(build(p, cmps=cmps, sreg=sreg)[1])
    except IndexError: return
    assert c1 == c2, (c1, c2)
t()
