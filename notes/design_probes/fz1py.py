import re, sys, collections, traceback, inspect, dataclasses, datetime, typing
sys.path.insert(0, "/tmp/probe/stubs")
from hypothesis import given, settings, strategies as st, HealthCheck, seed
from pl import *
import attr
from unidecode import unidecode
from fz3b_util import *
from json_to_models.dynamic_typing import StringSerializable
NoneType=type(None)
def fold(k): return re.sub(r"[\W_]", "", unidecode(k)).lower()
ones = ['', 'one', 'two', 'three', 'four', 'five', 'six', 'seven', 'eight', 'nine']
def digitword(k):
    lab = re.sub(r"\W", "", unidecode(k))
    return ones[int(lab[0])] + lab[1:] if lab and lab[0].isdigit() else lab
def fields_of(cls, fw, meta):
    """original key -> (python name, has_default)"""
    out={}
    if fw in ("pydantic","sqlmodel"):
        for n,f in cls.__fields__.items(): out[f.alias]=(n, not f.required)
    elif fw=="attrs":
        for a in attr.fields(cls): out[a.metadata["J2M_ORIGINAL_FIELD"] if (meta and "J2M_ORIGINAL_FIELD" in a.metadata) else ("~"+a.name)]=(a.name, a.default is not attr.NOTHING)
    elif fw=="dataclasses":
        for a in dataclasses.fields(cls): out[("~"+a.name) if not (meta and "J2M_ORIGINAL_FIELD" in a.metadata) else a.metadata["J2M_ORIGINAL_FIELD"]]=(a.name, a.default is not dataclasses.MISSING or a.default_factory is not dataclasses.MISSING)
    else:
        for n in getattr(cls,"__annotations__",{}): out["~"+n]=(n, False)
    return out
def inh_py(v, t, ctx):
    if t is typing.Any: return True
    if t is NoneType or t is None: return v is None
    o = typing.get_origin(t)
    if o is typing.Union: return any(inh_py(v, a, ctx) for a in typing.get_args(t))
    if o is typing.Literal: return isinstance(v,str) and v in typing.get_args(t)
    if o is list: return isinstance(v,list) and all(inh_py(x, typing.get_args(t)[0], ctx) for x in v)
    if o is dict: return isinstance(v,dict) and all(inh_py(x, typing.get_args(t)[1], ctx) for x in v.values())
    if inspect.isclass(t):
        if t in ctx["classes"]: return isinstance(v,dict) and accepts(v, t, ctx)
        if issubclass(t, StringSerializable):
            if not isinstance(v,str): return False
            try: t.to_internal_value(v); return True
            except (ValueError, OverflowError): return False
        if t is float: return type(v) in (int,float)
        if t is int: return type(v) is int
        if t is bool: return type(v) is bool
        if t is str: return isinstance(v,str)
        if t in (datetime.date, datetime.time, datetime.datetime):
            from json_to_models.dynamic_typing import IsoDateString, IsoTimeString, IsoDatetimeString
            c={datetime.date:IsoDateString, datetime.time:IsoTimeString, datetime.datetime:IsoDatetimeString}[t]
            if not isinstance(v,str): return False
            try: c.to_internal_value(v); return True
            except (ValueError, OverflowError): return False
    raise AssertionError(("unknown annotation", t))
def accepts(obj, cls, ctx):
    fw, meta = ctx["fw"], ctx["meta"]
    hints = ctx["hints"][cls]
    fo = fields_of(cls, fw, meta)
    used=set()
    for k,v in obj.items():
        cand = fo.get(k)
        if cand is None:
            # match by name oracle
            ms=[(n,d) for kk,(n,d) in fo.items() if kk.startswith("~") and fold(n.rstrip("_"))==fold(digitword(k))]
            if len(ms)!=1:
                if fw in ("pydantic","sqlmodel") and v is None: continue  # dropped null-only? checked by caller
                ctx["why"].append(("no unique field for key", k, cls.__name__, list(fo))); return False
            cand=ms[0]
        n,d=cand; used.add(n)
        if not inh_py(v, hints[n], ctx): ctx["why"].append(("value", k, v, str(hints[n]))); return False
    for kk,(n,d) in fo.items():
        if n not in used and not d and fw!="base": ctx["why"].append(("missing required", n)); return False
    return True
keys = st.sampled_from(["a","b","fooBar","list","id","x1y","items","q r","Ключ"])
strs = st.sampled_from(["", "foo", "bar", "1", "1.5", "true", "2018-01-02", "12:30", "2018-01-02T03:04:05", "x"*25, "a\"b"])
leaf = st.one_of(st.none(), st.booleans(), st.integers(-3,3), st.just(0.5), strs)
val = st.recursive(leaf, lambda c: st.one_of(st.lists(c, max_size=3), st.dictionaries(keys, c, max_size=3)), max_leaves=8)
objs = st.lists(st.dictionaries(keys, val, max_size=4), min_size=1, max_size=3)
buckets=collections.Counter(); examples={}
@settings(max_examples=int(sys.argv[1]), deadline=None, database=None, suppress_health_check=list(HealthCheck))
@seed(3)
@given(objs, st.booleans(), st.sampled_from(["base","pydantic","attrs","dataclasses","sqlmodel"]), st.booleans(), st.booleans(), st.booleans())
def t(samples, dt, fw, nested, meta, uni):
    sreg = full_registry(dt)
    gen, reg, rep = build(samples, sreg=sreg)
    if nested and not is_tree(reg): nested=False
    kw = dict(convert_unicode=uni)
    if fw in ("attrs","dataclasses"): kw["meta"]=meta
    src = code(reg, fw, nested, **kw); m = load(src)
    out=[]
    for k, v in list(vars(m).items()):
        if inspect.isclass(v) and v.__module__ == m.__name__: walk(v, {}, out)
    hints={}
    for c, ns, p in out:
        ns=dict(ns); ns.update(vars(c))
        if fw in ("pydantic","sqlmodel"): c.update_forward_refs(**{k:v for k,v in ns.items() if inspect.isclass(v)})
        hints[c]=typing.get_type_hints(c, vars(m), ns)
    ctx=dict(fw=fw, meta=meta, classes={c for c,_,_ in out}, hints=hints, why=[])
    for s in samples:
        if not accepts(s, m.Root, ctx):
            k=(fw, ctx["why"][-1][0]); buckets[k]+=1
            if k not in examples or len(str(samples))<len(str(examples[k][0])): examples[k]=(samples, ctx["why"][-1], src)
            return
    buckets["ok"]+=1
t()
print(buckets)
for k,v in examples.items(): print(k, v[0], v[1]); print(v[2])
