from pydantic.v1 import BaseModel as _BM, Field as _F
class SQLModel(_BM):
    def __init_subclass__(cls, table=False, **kw):
        super().__init_subclass__(**kw)
        cls.__table__ = table
def Field(default=..., *, primary_key=False, **kw):
    return _F(default, primary_key=primary_key, **kw)
