import sys, collections, traceback, re
from hypothesis import given, settings, strategies as st, HealthCheck, seed
from tight import *
keys = st.sampled_from(["a","b","c","n_1","n_2","n_x","m1","data","map"])
strs = st.sampled_from(["", "foo", "bar", "1", "-2", "1.5", "1e3", "true", "False", "nan", "2018-01-02", "12:30", "2018-01-02T03:04:05", "x"*25, "a,b", "b", "/6099999999"])
leaf = st.one_of(st.none(), st.booleans(), st.integers(-3,3), st.floats(allow_nan=False, allow_infinity=False, width=16), strs)
val = st.recursive(leaf, lambda c: st.one_of(st.lists(c, max_size=3), st.dictionaries(keys, c, max_size=3)), max_leaves=10)
objs = st.lists(st.dictionaries(keys, val, max_size=4), min_size=1, max_size=4)
buckets = collections.Counter(); examples = {}
def rec(k, ex):
    buckets[k]+=1
    if k not in examples or len(str(ex)) < len(str(examples[k])): examples[k]=ex
def expected_kind(obj, fieldname, dkr, dkf, toplevel=False):
    if toplevel: return "model"
    if not obj: return "dict"
    if fieldname is not None and fieldname in dkf: return "dict"
    for r in dkr:
        if all(re.match(r, k) for k in obj): return "dict"
    return "model"
def walk_kinds(v, t, fieldname, dkr, dkf, sreg, out):
    """v inhabits t; verify kind of each object"""
    if isinstance(v, dict):
        kind = expected_kind(v, fieldname, dkr, dkf)
        # find how t accommodates v
        cands = t.types if isinstance(t, DUnion) else [t.type] if isinstance(t, DOptional) and not isinstance(t.type, DUnion) else t.type.types if isinstance(t, DOptional) else [t]
        as_model = [c for c in cands if isinstance(c, ModelPtr)]
        as_dict = [c for c in cands if isinstance(c, DDict)]
        if kind == "dict":
            if not as_dict or not any(inhabits(v, c, sreg) for c in as_dict): out.append(("expected dict", fieldname, v, str(t)))
            else:
                for c in as_dict:
                    for x in v.values(): walk_kinds(x, c.type, None, dkr, dkf, sreg, out)
        else:
            ok = [c for c in as_model if inhabits(v, c, sreg)]
            if not ok: out.append(("expected model", fieldname, v, str(t)))
            else:
                for c in ok:
                    for k, x in v.items(): walk_kinds(x, c.type.type[k], k, dkr, dkf, sreg, out)
    elif isinstance(v, list):
        cands = t.types if isinstance(t, DUnion) else [t.type] if isinstance(t, DOptional) and not isinstance(t.type, DUnion) else t.type.types if isinstance(t, DOptional) else [t]
        for c in cands:
            if isinstance(c, DList) and inhabits(v, c, sreg):
                for x in v: walk_kinds(x, c.type, None, dkr, dkf, sreg, out)
@settings(max_examples=int(sys.argv[1]), deadline=None, database=None, suppress_health_check=list(HealthCheck))
@seed(int(sys.argv[2]))
@given(objs, st.booleans(), st.sampled_from([(), (ModelFieldsEquals(),), (ModelFieldsPercentMatch(.5),), (ModelFieldsNumberMatch(2),)]),
       st.sampled_from([[], [r"n_\d"], [r"n_\d", r"[ab]"], [r"m"]]), st.sampled_from([[], ["data"], ["data","map","a"]]))
def t(samples, dt, cmps, dkr, dkf):
    sreg = full_registry(dt)
    try:
        gen, reg, rep = build(samples, cmps=cmps, sreg=sreg, dkr=dkr, dkf=dkf)
    except Exception as e:
        tb = traceback.extract_tb(e.__traceback__)[-1]
        rec(("EXC", type(e).__name__, tb.filename.split('/')[-1], tb.lineno), samples); return
    roots = [m for m in reg.models if any(p.parent is None for p in m.pointers)]
    for s in samples:
        why=[]
        if not model_accepts(s, roots[0], sreg, why): rec(("UNSOUND", why[-1][0]), (samples, dkr, dkf, str(why[-1]))); return
    for v in check_tight(samples, reg, sreg): rec(("LOOSE", v[0]), (samples, dkr, dkf, v[:3]))
    out=[]
    for s in samples:
        for k, x in s.items(): walk_kinds(x, roots[0].type[k], k, dkr, dkf, sreg, out)
    for o in out: rec(("KIND", o[0]), (samples, dkr, dkf, o))
t()
print(buckets)
for k,v in examples.items(): print(k, v)
