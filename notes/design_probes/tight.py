from inh import *
import collections
class W:  # witness collection
    def __init__(self, sreg):
        self.sreg=sreg
        self.objs=collections.defaultdict(list)   # model index -> objects routed
        self.viol=[]
    def route(self, v, t, path):
        """value v is claimed to inhabit t; record witnesses"""
        if isinstance(t, ModelPtr):
            self.objs[t.type.index].append(v); return
        if isinstance(t, DOptional):
            if v is not None: self.route(v, t.type, path)
            return
        if isinstance(t, DUnion):
            ms = [x for x in t.types if inhabits(v, x, self.sreg)]
            for x in ms: self.route(v, x, path)
            return
        if isinstance(t, DList):
            for x in v: self.route(x, t.type, path+"[]")
            return
        if isinstance(t, DDict):
            for x in v.values(): self.route(x, t.type, path+"{}")
            return
def check_tight(samples, reg, sreg):
    """returns list of violations"""
    viol=[]
    roots=[m for m in reg.models if any(p.parent is None for p in m.pointers)]
    values = collections.defaultdict(list)  # model index -> list of objs
    for s in samples: values[roots[0].index].append(s)
    # propagate to fixpoint: process models in BFS; objects routed to models via fields
    done=set(); 
    # collect values per (model, field)
    changed=True
    seen_ids=set()
    fieldvals=collections.defaultdict(list); present=collections.defaultdict(list)
    queue=[(roots[0], s) for s in samples]
    models={m.index:m for m in reg.models}
    while queue:
        m,o=queue.pop()
        if (m.index,id(o)) in seen_ids: continue
        seen_ids.add((m.index,id(o)))
        for k,t in m.type.items():
            if k in o:
                fieldvals[(m.index,k)].append(o[k])
                w=W(sreg); w.route(o[k], t, k)
                for mi, os_ in w.objs.items():
                    for x in os_: queue.append((models[mi], x))
            else:
                present[(m.index,k)].append(o)
    nobj=collections.Counter(mi for mi,_ in seen_ids)
    def chk(t, vals, where):
        # vals: list of values observed at this position
        if isinstance(t, DOptional):
            # handled at field-level for missing; here null
            chk(t.type, [v for v in vals if v is not None], where+"?")
            return
        if isinstance(t, DUnion):
            for x in t.types:
                sub=[v for v in vals if inhabits(v,x,sreg)]
                if not sub: viol.append(("union member without witness", where, str(x), vals))
                chk(x, sub, where+"|")
            return
        if isinstance(t, DList):
            els=[e for v in vals for e in v]
            if t.type is Unknown:
                if not any(all(e is None for e in v) for v in vals): viol.append(("Any elem but no empty/null-only container", where, vals))
            else:
                if not els and vals: viol.append(("list elem type without witness", where, str(t.type)))
                chk(t.type, els, where+"[]")
            return
        if isinstance(t, DDict):
            els=[e for v in vals for e in v.values()]
            if t.type is Unknown:
                if not any(all(e is None for e in v.values()) for v in vals): viol.append(("Any elem but no empty/null-only container", where, vals))
            else:
                if not els and vals: viol.append(("dict elem type without witness", where, str(t.type)))
                chk(t.type, els, where+"{}")
            return
        if isinstance(t, StringLiteral):
            if not t.overflowed:
                extra=set(t.literals)-{v for v in vals if isinstance(v,str)}
                if extra: viol.append(("literal not observed", where, extra))
            return
        if t is Unknown:
            viol.append(("Any outside container", where)); return
        if t is Null:
            return
    for m in reg.models:
        for k,t in m.type.items():
            vals=fieldvals[(m.index,k)]
            if isinstance(t, DOptional):
                if not present[(m.index,k)] and not any(v is None for v in vals):
                    viol.append(("optional without witness", m.name, k, str(t), nobj[m.index]))
            chk(t, vals, f"{m.name}.{k}")
    return viol
