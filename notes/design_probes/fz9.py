import sys, collections, traceback, math
from hypothesis import given, settings, strategies as st, HealthCheck, seed
from pl import *
from json_to_models.generator import MetadataGenerator
frag = st.sampled_from(["0","1","9","12","30","59","60","99","2018","0001","9999","10000","-",":",".","T","Z","+","+01:00"," ","e","E","_","nan","inf","true","False","٣","１","/",",","W","Jan","monday","am","PM","t","\n","x","1e400","-0","000"])
s = st.lists(frag, min_size=1, max_size=7).map("".join)
buckets = collections.Counter(); examples={}
@settings(max_examples=int(sys.argv[1]), deadline=None, database=None, suppress_health_check=list(HealthCheck))
@seed(1)
@given(s)
def t(x):
    sreg = full_registry(True)
    g = MetadataGenerator(str_types_registry=sreg)
    try:
        ty = g._detect_type(x)
    except Exception as e:
        tb = traceback.extract_tb(e.__traceback__)[-1]
        k=("detect-exc", type(e).__name__, tb.filename.split('/')[-1], tb.lineno); buckets[k]+=1
        if k not in examples or len(x)<len(examples[k]): examples[k]=x
        return
    for cls in sreg.types:
        try:
            v = cls.to_internal_value(x)
        except ValueError: continue
        except Exception as e:
            k=("parse-exc", cls.__name__, type(e).__name__); buckets[k]+=1
            if k not in examples or len(x)<len(examples[k]): examples[k]=x
            continue
        try:
            r = v.to_representation(); v2 = cls.to_internal_value(r)
            ok = (v2 == v) or (isinstance(v, float) and math.isnan(v) and math.isnan(v2))
            if not ok:
                k=("roundtrip-neq", cls.__name__); buckets[k]+=1
                if k not in examples or len(x)<len(examples[k]): examples[k]=x
        except Exception as e:
            k=("roundtrip-exc", cls.__name__, type(e).__name__, str(e)[:40]); buckets[k]+=1
            if k not in examples or len(x)<len(examples[k]): examples[k]=x
t()
for k,v in buckets.items(): print(v,k,repr(examples[k]))
