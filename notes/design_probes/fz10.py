import sys, collections, typing
from hypothesis import given, settings, strategies as st, HealthCheck, seed
from pl import *
from typing import Literal, List, Dict
ALPHA = 'ab"\\\n,\té😀 \''
s_short = st.text(alphabet=ALPHA, min_size=0, max_size=6)
s_edge = st.integers(17, 22).flatmap(lambda n: st.text(alphabet="xy", min_size=n, max_size=n))
strings = st.lists(st.one_of(s_short, s_short, s_short, s_edge), min_size=0, max_size=18, unique=True)
buckets=collections.Counter(); ex={}
def is_pseudo(s):
    for c in full_registry(False).types:
        try: c.to_internal_value(s); return True
        except ValueError: pass
    return False
@settings(max_examples=int(sys.argv[1]), deadline=None, database=None, suppress_health_check=list(HealthCheck))
@seed(1)
@given(strings, st.integers(0,16), st.sampled_from(["base","pydantic","attrs","dataclasses"]), st.sampled_from(["scalar","list","dict"]), st.integers(1,3))
def t(S, maxlit, fw, pos, nsamples):
    S=[s for s in S if not is_pseudo(s)]
    if not S: return
    chunks=[S[i::nsamples] for i in range(nsamples)]
    if pos=="scalar": samples=[{"f": s} for s in S]
    elif pos=="list": samples=[{"f": ch} for ch in chunks if ch]
    else: samples=[{"f": {f"k{i}": s for i,s in enumerate(ch)}} for ch in chunks if ch]
    src = run(samples, fw, dkr=[r"k\d+"], sreg=full_registry(False), max_literals=maxlit)
    m = load(src); ann = typing.get_type_hints(m.Root)["f"]
    lit_ok = all(len(s)<20 for s in S) and len(set(S))<=15 and len(set(S))<maxlit and fw!="attrs"
    exp = Literal[tuple(sorted(set(S)))] if lit_ok else str
    exp = exp if pos=="scalar" else List[exp] if pos=="list" else Dict[str, exp]
    if ann != exp:
        k=("mismatch", lit_ok); buckets[k]+=1
        if k not in ex or len(str(S))<len(str(ex[k][0])): ex[k]=(S,maxlit,fw,pos,str(ann)[:200])
    if (maxlit==0 or fw=="attrs") and "Literal" in src: buckets["literal token"]+=1
    buckets["ok"]+=1; buckets[("lit",lit_ok)]+=1
t()
print(buckets); print(ex)
