import types, random
from sched import *
from json_to_models.dynamic_typing import AbsoluteModelRef
inputs = [[{"a": {"x": {"k%d"%i: i, "z": "s"}, "q": 1}, "b": {"y": {"k%d"%i: 2, "z": "t"}, "w": 2}}] for i in range(3)]
def job(s, nested): return lambda: run(s, "pydantic", nested=nested)
solo = [run(s, "pydantic", nested=True) for s in inputs]
AbsoluteModelRef.Context.data = types.SimpleNamespace(context=None)
bad=0
for rep in range(30):
    rnd = random.Random(rep)
    sc = Sched([job(s, True) for s in inputs], [rnd.randrange(3) for _ in range(400)])
    res = sc.run()
    if res != solo: bad += 1
print("bad with shared context", bad, "/30")
