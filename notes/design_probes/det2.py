import sys, json, hashlib
from hypothesis import given, settings, strategies as st, HealthCheck, seed
from pl import *
keys = st.sampled_from(["a","b","c","d","e"])
leaf = st.one_of(st.none(), st.integers(0,1), st.sampled_from(["foo","bar","1","true"]))
val = st.recursive(leaf, lambda c: st.one_of(st.lists(c, max_size=3), st.dictionaries(keys, c, max_size=4)), max_leaves=10)
objs = st.lists(st.dictionaries(keys, val, max_size=4), min_size=1, max_size=3)
out=[]
@settings(max_examples=int(sys.argv[1]), deadline=None, database=None, suppress_health_check=list(HealthCheck))
@seed(7)
@given(objs, st.sampled_from(["pydantic","attrs"]), st.booleans())
def t(samples, fw, nested):
    try: src = run(samples, fw, nested)
    except Exception as e: src = "EXC "+type(e).__name__
    out.append((json.dumps(samples), fw, nested, hashlib.md5(src.encode()).hexdigest()))
t()
json.dump(out, open(sys.argv[2],"w"))
