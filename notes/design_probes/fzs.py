import sys, collections
from hypothesis import given, settings, strategies as st, HealthCheck, seed
from strref import *
keys = st.sampled_from(["a","b","c","d"])
strs = st.sampled_from(["", "foo", "bar", "baz", "1", "-2", "1.5", "true", "False", "2018-01-02", "12:30", "x"*25, "y"*19, "z"*20] + [f"s{i}" for i in range(17)])
leaf = st.one_of(st.none(), st.integers(0,1), strs, strs, strs)
val = st.recursive(leaf, lambda c: st.one_of(st.lists(c, max_size=4), st.dictionaries(keys, c, max_size=3)), max_leaves=10)
objs = st.lists(st.dictionaries(keys, val, max_size=4), min_size=1, max_size=5)
buckets=collections.Counter(); ex={}
@settings(max_examples=int(sys.argv[1]), deadline=None, database=None, suppress_health_check=list(HealthCheck))
@seed(int(__import__("os").environ.get("PSEED","1")))
@given(objs, st.booleans(), st.sampled_from([(), (ModelFieldsEquals(),), (ModelFieldsPercentMatch(.5),)]))
def t(samples, dt, cmps):
    sreg = full_registry(dt)
    gen, reg, rep = build(samples, cmps=cmps, sreg=sreg)
    for v in check_strings(samples, reg, sreg):
        buckets["mismatch"]+=1
        if "m" not in ex or len(str(samples))<len(str(ex["m"][0])): ex["m"]=(samples, v, dt)
t()
print(buckets); print(ex)
