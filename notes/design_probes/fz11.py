import re, sys, collections, traceback, inspect, keyword, dataclasses
from hypothesis import given, settings, strategies as st, HealthCheck, seed
from inh import *
import typing, attr
from unidecode import unidecode
from fz3b_util import *
ALPHA = "abcxyzABCXYZ" + "0159" + " -_.'\"\\/:$%#@!,;()[]{}<>+=*&^~`|?" + "éüñßøåçÆŒ" + "αβγΩΣ" + "абвЖЯё" + "ԱԲա" 
key = st.text(alphabet=ALPHA, min_size=1, max_size=8)
WORDS = ["class","def","list","type","id","None","True","List","Optional","field","Field","attr","optional","dataclass","self","cls","mro","copy","json","dict","fields","schema","Config","validate","construct","metadata","__init__","__class__"]
key = st.one_of(key, st.sampled_from(WORDS))
def fold(k): return re.sub(r"[\W_]", "", unidecode(k)).lower()
def in_domain(k, uni):
    lab = re.sub(r"\W", "", unidecode(k) if uni else k)
    if not lab: return False
    if lab[0] == "_" or lab[0] == "0": return False
    if not (lab[0].isalpha() or lab[0] in "123456789"): return False
    if not re.search(r"[A-Za-z]", unidecode(k)): return False
    return True
buckets=collections.Counter(); examples={}
def rec(k, ex):
    buckets[k]+=1
    if k not in examples or len(str(ex)) < len(str(examples[k])): examples[k]=ex
N=collections.Counter()
@settings(max_examples=int(sys.argv[1]), deadline=None, database=None, suppress_health_check=list(HealthCheck))
@seed(1)
@given(st.lists(key, min_size=1, max_size=5, unique_by=fold), st.sampled_from(["pydantic","attrs","dataclasses","base"]), st.booleans(), st.booleans())
def t(ks, fw, uni, nestobj):
    ks = [k for k in ks if in_domain(k, uni)]
    if not ks: N["empty"]+=1; return
    N["ok"]+=1
    sample = {k: i for i, k in enumerate(ks)}
    if nestobj:
        sample = {k: {"v": i} for i, k in enumerate(ks)}
    kw = dict(convert_unicode=uni)
    if fw in ("attrs","dataclasses"): kw["meta"]=True
    stage="build"
    try:
        gen, reg, rep = build([sample], sreg=full_registry(False))
        stage="gen"
        src = code(reg, fw, False, **kw)
        stage="exec"
        m = load(src)
        stage="check"
        out=[]
        for k, v in list(vars(m).items()):
            if inspect.isclass(v) and v.__module__ == m.__name__: walk(v, {}, out)
        assert len(out) == len(reg.models), "class count"
        hints = typing.get_type_hints(m.Root, vars(m))
        if fw == "pydantic":
            al = {f.alias for f in m.Root.__fields__.values()}
            assert al == set(ks), ("alias", al)
            m.Root.update_forward_refs(); 
            for c,_,_ in out: c.update_forward_refs()
            m.Root.parse_obj(sample)
        elif fw == "attrs":
            got = {a.metadata.get("J2M_ORIGINAL_FIELD", a.name) for a in attr.fields(m.Root)}
            assert got == set(ks), ("meta", got)
        elif fw == "dataclasses":
            got = {a.metadata.get("J2M_ORIGINAL_FIELD", a.name) for a in dataclasses.fields(m.Root)}
            assert got == set(ks), ("meta", got)
    except Exception as e:
        rec((stage, fw, uni, type(e).__name__, re.sub(r"m_[0-9a-f]+|0x[0-9a-f]+|line \d+","",str(e))[:80]), (ks, nestobj))
t()
print(N)
for k,v in sorted(buckets.items(), key=str): print(v, k, examples[k])
