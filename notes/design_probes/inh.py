from pl import *
from json_to_models.dynamic_typing import *
from json_to_models.dynamic_typing.base import NoneType, UnknownType
from inspect import isclass

def inhabits(v, t, sreg):
    """does json value v lie in IR type t"""
    if isinstance(t, ModelPtr):
        return isinstance(v, dict) and model_accepts(v, t.type, sreg)
    if isinstance(t, ModelMeta):
        return isinstance(v, dict) and model_accepts(v, t, sreg)
    if isinstance(t, dict):
        raise AssertionError("raw dict in IR")
    if isinstance(t, DOptional):
        return v is None or inhabits(v, t.type, sreg)
    if isinstance(t, DUnion):
        return any(inhabits(v, x, sreg) for x in t.types)
    if isinstance(t, DList):
        return isinstance(v, list) and all(inhabits(x, t.type, sreg) for x in v)
    if isinstance(t, DDict):
        return isinstance(v, dict) and all(inhabits(x, t.type, sreg) for x in v.values())
    if isinstance(t, StringLiteral):
        return isinstance(v, str) and (t.overflowed or v in t.literals)
    if t is Null: return v is None
    if t is Unknown: return True
    if isclass(t):
        if issubclass(t, StringSerializable):
            if not isinstance(v, str): return False
            try: t.to_internal_value(v); return True
            except (ValueError, OverflowError): return False
        if t is float: return type(v) in (int, float)
        if t is int: return type(v) is int
        if t is bool: return type(v) is bool
        if t is str: return isinstance(v, str)
    raise AssertionError(f"unknown type {t!r}")

def model_accepts(obj, model, sreg, why=None):
    fields = model.type
    for k, v in obj.items():
        if k not in fields:
            if why is not None: why.append(("extra key", k, model)); 
            return False
        if not inhabits(v, fields[k], sreg):
            if why is not None: why.append(("value", k, v, str(fields[k]), model))
            return False
    for k, t in fields.items():
        if k not in obj and not isinstance(t, DOptional):
            if why is not None: why.append(("missing", k, model))
            return False
    return True
