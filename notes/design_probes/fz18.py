import re, sys, collections, traceback, typing, dataclasses
from hypothesis import given, settings, strategies as st, HealthCheck, seed, Phase
from inh import *
import attr
keys = st.sampled_from(["a","b","c","fooBar"])
strs = st.sampled_from(["", "foo", "1", "1.5", "true", "2018-01-02", "12:30", "2018-01-02T03:04:05"])
leaf = st.one_of(st.none(), st.booleans(), st.integers(-3,3), strs)
val = st.recursive(leaf, lambda c: st.one_of(st.lists(c, max_size=3), st.dictionaries(st.sampled_from(["k1","k2"]), c, max_size=2)), max_leaves=6)
objs = st.lists(st.dictionaries(keys, val, max_size=3), min_size=1, max_size=3)
buckets = collections.Counter(); examples = {}
def rec(k, ex):
    buckets[k]+=1
    if k not in examples or len(str(ex)) < len(str(examples[k])): examples[k]=ex
@settings(max_examples=int(sys.argv[1]), deadline=None, database=None, suppress_health_check=list(HealthCheck))
@seed(1)
@given(objs, st.booleans(), st.sampled_from(["attrs","dataclasses"]), st.booleans())
def t(samples, dt, fw, conv):
    sreg = full_registry(dt)
    gen, reg, rep = build(samples, sreg=sreg, dkr=["k\\d"])
    kw = dict(post_init_converters=conv)
    stage="gen"
    try:
        src = code(reg, fw, False, **kw)
        stage="exec"
        m = load(src)
        stage="construct"
        root = m.Root
        model = [x for x in reg.models if x.name=="Root"][0]
        g = GENS[fw](model, **kw)
        for s in samples:
            kwargs = {g.convert_field_name(k): v for k, v in s.items()}
            obj = root(**kwargs)
    except Exception as e:
        tb = traceback.extract_tb(e.__traceback__)[-1]
        k = (stage, fw, conv, type(e).__name__, re.sub(r"m_[0-9a-f]+|0x[0-9a-f]+|line \d+","",str(e))[:70], re.sub(r"m_[0-9a-f]+","",tb.filename.split("/")[-1]), tb.lineno if "m_" not in tb.filename else 0)
        rec(k, (samples, src if stage!="gen" else None))
        return
t()
for k,v in sorted(buckets.items(), key=str): print(v, k, examples[k][0])
