import re, sys, collections, traceback, typing, inspect
from hypothesis import given, settings, strategies as st, HealthCheck, seed, Phase
from inh import *
import typing
from unidecode import unidecode
def fold(k): return re.sub(r"[\W_]", "", unidecode(k)).lower()
POOL = ["a","b","fooBar","foo-bar","FooBar","list","field","class","id","Optional","List","Any","Field","attr","x1y","naïve","Ключ","items","a b", 'a"b', "optional", "IntString", "c\\d", "e'f", "BaseModel", "dataclass", "convert_strings", "Literal", "Dict","Union","type","None","str","pk"]

strs = st.sampled_from(["", "foo", "1", "1.5", "true", "2018-01-02", "x"*25, "a\"b", "é"])
leaf = st.one_of(st.none(), st.booleans(), st.integers(-3,3), strs)
def objs_for(ks):
    keys = st.sampled_from(ks)
    val = st.recursive(leaf, lambda c: st.one_of(st.lists(c, max_size=3), st.dictionaries(keys, c, max_size=3)), max_leaves=8)
    return st.lists(st.dictionaries(keys, val, max_size=4), min_size=1, max_size=3)
objs = st.lists(st.sampled_from(POOL), min_size=1, max_size=6, unique_by=fold).flatmap(objs_for)
buckets = collections.Counter(); examples = {}
def rec(k, ex):
    buckets[k]+=1
    if k not in examples or len(str(ex)) < len(str(examples[k])): examples[k]=ex
def walk(cls, ns, out):
    out.append((cls, dict(ns)))
    ns2 = dict(ns); ns2.update(vars(cls))
    for k, v in vars(cls).items():
        if inspect.isclass(v) and v.__module__ == cls.__module__ and v.__qualname__.startswith(cls.__qualname__ + "."):
            walk(v, ns2, out)
def is_tree(reg):
    for m in reg.models:
        parents = [p.parent for p in m.pointers if p.parent is not None]
        roots = [p for p in m.pointers if p.parent is None]
        if roots and parents: return False
        if len({id(p) for p in parents}) > 1: return False
        if any(p is m for p in parents): return False
    return True
N=collections.Counter()
@settings(max_examples=int(sys.argv[1]), deadline=None, database=None, suppress_health_check=list(HealthCheck))
@seed(1)
@given(objs, st.booleans(), st.sampled_from(["base","pydantic","attrs","dataclasses"]), st.booleans(), st.booleans(), st.booleans(), st.booleans())
def t(samples, dt, fw, nested, conv, meta, uni):
    sreg = full_registry(dt)
    gen, reg, rep = build(samples, sreg=sreg)
    if nested and not is_tree(reg):
        N["nontree"]+=1; return
    N["ok"]+=1
    kw = dict(post_init_converters=conv, convert_unicode=uni)
    if fw in ("attrs","dataclasses"): kw["meta"]=meta
    stage="gen"
    try:
        src = code(reg, fw, nested, **kw)
        stage="exec"
        m = load(src)
        stage="hints"
        out=[]
        for k, v in list(vars(m).items()):
            if inspect.isclass(v) and v.__module__ == m.__name__:
                walk(v, {}, out)
        assert len(out) == len(reg.models), ("class count", len(out), len(reg.models))
        for cls, ns in out:
            ns = dict(ns); ns.update(vars(cls))
            typing.get_type_hints(cls, vars(m), ns)
        if fw == "pydantic":
            stage="parse"
            for cls, ns in out:
                ns = dict(vars(m)); ns.update(dict(ns)); 
                cls.update_forward_refs(**{k:v for k,v in {**_ns(cls, out)}.items()})
            for s in samples:
                m.Root.parse_obj(s)
    except Exception as e:
        tb = traceback.extract_tb(e.__traceback__)[-1]
        k = (stage, fw, nested, type(e).__name__, re.sub(r"m_[0-9a-f]+|0x[0-9a-f]+|line \d+","",str(e))[:90])
        rec(k, (samples, kw))
        return
def _ns(cls, out):
    for c, ns in out:
        if c is cls:
            d = dict(ns); d.update({k:v for k,v in vars(cls).items() if inspect.isclass(v)}); return d
t()
print(N)
for k,v in sorted(buckets.items(), key=str): print(v, k, examples[k])
