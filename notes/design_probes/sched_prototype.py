import sys, threading, os
from pl import *
PKG = os.path.dirname(sys.modules["json_to_models"].__file__)

class Sched:
    """Cooperative deterministic scheduler: worker threads park at call/return events of json_to_models code."""
    def __init__(self, jobs, schedule):
        self.jobs = jobs; self.schedule = list(schedule); self.pos = 0
        self.n = len(jobs)
        self.sems = [threading.Semaphore(0) for _ in jobs]
        self.ctl = threading.Semaphore(0)
        self.done = [False]*self.n
        self.results = [None]*self.n
        self.steps = 0; self.overlap = 0
        self.inside = [0]*self.n   # depth inside generate_code
    def _tracer(self, i):
        def local(frame, event, arg):
            if event == "return":
                self._yield(i)
            return local
        def glob(frame, event, arg):
            if event == "call" and frame.f_code.co_filename.startswith(PKG):
                if frame.f_code.co_name == "generate_code": self.inside[i] += 1
                self._yield(i)
                return local
            return None
        return glob
    def _yield(self, i):
        self.ctl.release()      # hand control back
        self.sems[i].acquire()  # wait until scheduled again
    def _worker(self, i):
        self.sems[i].acquire()
        sys.settrace(self._tracer(i))
        try:
            self.results[i] = self.jobs[i]()
        except BaseException as e:
            self.results[i] = ("EXC", repr(e))
        finally:
            sys.settrace(None)
            self.done[i] = True
            self.ctl.release()
    def run(self):
        ts = [threading.Thread(target=self._worker, args=(i,)) for i in range(self.n)]
        for t in ts: t.start()
        while not all(self.done):
            runnable = [i for i in range(self.n) if not self.done[i]]
            if self.pos < len(self.schedule):
                pick = runnable[self.schedule[self.pos] % len(runnable)]; self.pos += 1
            else:
                pick = runnable[self.steps % len(runnable)]
            self.steps += 1
            if sum(1 for i in runnable if self.inside[i] > 0) >= 2: self.overlap += 1
            self.sems[pick].release()
            self.ctl.acquire()
        for t in ts: t.join()
        return self.results

if __name__ == "__main__":
    import random, time
    inputs = [[{"a": {"x": {"k": i, "z": "s"}, "q": 1}, "b": {"y": {"k": 2, "z": "t"}, "w": 2}}] for i in range(3)]
    def job(s, nested): return lambda: run(s, "pydantic", nested=nested)
    solo = [run(s, "pydantic", nested=True) for s in inputs]
    print(solo[0])
    t0=time.time(); bad=0
    for rep in range(30):
        rnd = random.Random(rep)
        sc = Sched([job(s, True) for s in inputs], [rnd.randrange(3) for _ in range(400)])
        res = sc.run()
        if res != solo: bad += 1
    print("bad", bad, "steps", sc.steps, "overlap", sc.overlap, time.time()-t0)
