import sys, collections, itertools
from hypothesis import given, settings, strategies as st, HealthCheck, seed
from canon import *
keys = st.sampled_from(["a","b","c","d"])
strs = st.sampled_from(["foo", "bar", "1", "1.5", "true", "2018-01-02", "x"*25, "a,b"])
leaf = st.one_of(st.none(), st.booleans(), st.integers(0,1), st.just(0.5), strs)
val = st.recursive(leaf, lambda c: st.one_of(st.lists(c, max_size=3), st.dictionaries(keys, c, max_size=3)), max_leaves=6)
objs = st.lists(st.dictionaries(keys, val, max_size=3), min_size=1, max_size=4)
@settings(max_examples=int(sys.argv[1]), deadline=None, database=None, suppress_health_check=list(HealthCheck))
@seed(int(sys.argv[2]))
@given(objs, st.data(), st.sampled_from([(ModelFieldsEquals(),), (), (ModelFieldsPercentMatch(.5),), (ModelFieldsNumberMatch(2),)]), st.booleans())
def t(samples, data, cmps, dt):
    n = len(samples)
    extra = data.draw(st.lists(st.integers(0, n-1), max_size=3))
    seq = list(range(n)) + extra
    perm = data.draw(st.permutations(seq))
    p = [samples[i] for i in perm]
    c1 = canon(build(samples, cmps=cmps, sreg=full_registry(dt))[1])
    c2 = canon(build(p, cmps=cmps, sreg=full_registry(dt))[1])
    assert c1 == c2, (c1, c2)
t()
