import sys, collections
from hypothesis import given, settings, strategies as st, HealthCheck, seed
from tight import *
keys = st.sampled_from(["a","b","c","d","e"])
strs = st.sampled_from(["", "foo", "bar", "1", "-2", "1.5", "true", "2018-01-02", "x"*25])
leaf = st.one_of(st.none(), st.booleans(), st.integers(-3,3), st.just(0.5), strs)
val = st.recursive(leaf, lambda c: st.one_of(st.lists(c, max_size=3), st.dictionaries(keys, c, max_size=3)), max_leaves=8)
objs = st.lists(st.dictionaries(keys, val, max_size=4), min_size=1, max_size=4)
buckets = collections.Counter(); examples = {}
@settings(max_examples=int(sys.argv[1]), deadline=None, database=None, suppress_health_check=list(HealthCheck))
@seed(int(__import__("os").environ.get("PSEED","1")))
@given(objs, st.booleans(), st.sampled_from([(), (ModelFieldsEquals(),), (ModelFieldsPercentMatch(.5),), (ModelFieldsNumberMatch(2),)]))
def t(samples, dt, cmps):
    sreg = full_registry(dt)
    gen, reg, rep = build(samples, cmps=cmps, sreg=sreg)
    for v in check_tight(samples, reg, sreg):
        k=v[0]; buckets[k]+=1
        if k not in examples or len(str(samples))<len(str(examples[k][0])): examples[k]=(samples, v, cmps)
t()
print(buckets)
for k,v in examples.items(): print(k, v)
