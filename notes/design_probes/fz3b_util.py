import inspect
def walk(cls, ns, out, path=()):
    out.append((cls, dict(ns), path+(cls.__name__,)))
    ns2 = dict(ns); ns2.update(vars(cls))
    for k, v in vars(cls).items():
        if inspect.isclass(v) and v.__module__ == cls.__module__ and v.__qualname__.startswith(cls.__qualname__ + "."):
            walk(v, ns2, out, path+(cls.__name__,))
def is_tree(reg):
    for m in reg.models:
        parents = [p.parent for p in m.pointers if p.parent is not None]
        roots = [p for p in m.pointers if p.parent is None]
        if roots and parents: return False
        if len({id(p) for p in parents}) > 1: return False
        if any(p is m for p in parents): return False
    return True
