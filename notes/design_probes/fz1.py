import sys, collections, traceback
from hypothesis import given, settings, strategies as st, HealthCheck, seed
from inh import *
keys = st.sampled_from(["a","b","c","d","e","id","x_y"])
strs = st.sampled_from(["", "foo", "bar", "1", "-2", "1.5", "1e3", "true", "False", "nan", "2018-01-02", "12:30", "2018-01-02T03:04:05", "x"*25])
leaf = st.one_of(st.none(), st.booleans(), st.integers(-3,3), st.floats(allow_nan=False, allow_infinity=False, width=16), strs)
val = st.recursive(leaf, lambda c: st.one_of(st.lists(c, max_size=3), st.dictionaries(keys, c, max_size=3)), max_leaves=8)
objs = st.lists(st.dictionaries(keys, val, max_size=4), min_size=1, max_size=4)
buckets = collections.Counter(); examples = {}
N=[0]
@settings(max_examples=int(sys.argv[1]), deadline=None, database=None, suppress_health_check=list(HealthCheck))
@seed(1)
@given(objs, st.booleans(), st.sampled_from([(), (ModelFieldsEquals(),), (ModelFieldsPercentMatch(.5),)]))
def t(samples, dt, cmps):
    N[0]+=1
    sreg = full_registry(dt)
    try:
        gen, reg, rep = build(samples, cmps=cmps, sreg=sreg)
    except Exception as e:
        tb = traceback.extract_tb(e.__traceback__)[-1]
        k = ("EXC", type(e).__name__, tb.filename.split('/')[-1], tb.lineno)
        buckets[k]+=1; examples.setdefault(k, samples if len(str(samples))<len(str(examples.get(k,'x'*999))) else examples[k]); 
        if len(str(samples)) < len(str(examples[k])): examples[k]=samples
        return
    root = [m for m in reg.models if m.name == "Root"]
    for s in samples:
        why=[]
        roots = [m for m in reg.models if any(p.parent is None for p in m.pointers)]
        assert len(roots)==1
        if not model_accepts(s, roots[0], sreg, why):
            k = ("UNSOUND", why[-1][0])
            buckets[k]+=1
            if k not in examples or len(str(samples)) < len(str(examples[k][0])): examples[k]=(samples, [str(w) for w in why])
t()
print(N[0], buckets)
for k,v in examples.items(): print(k, v)
