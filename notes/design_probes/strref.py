from tight import *
def accept(cls, s):
    try: cls.to_internal_value(s); return True
    except (ValueError, OverflowError): return False
def detect(s, sreg):
    for t in sreg.types:
        if accept(t, s): return t
    return None
def strref(S, sreg):
    """expected set of string-ish members (canonical)"""
    if not S: return set()
    P = {detect(s, sreg) for s in S} - {None}
    plain = {s for s in S if detect(s, sreg) is None}
    out=set()
    pseudo=None
    if P:
        # minimal covering: remove types replaced by another present
        rem = {a for a in P for b in P if (a,b) in sreg.replaces}
        R = P - rem
        pseudo = next(iter(R)) if len(R)==1 else str
        out.add(pseudo.__name__ if pseudo is not str else "str")
    if plain:
        if pseudo is str or len(plain)>15 or any(len(s)>=20 for s in plain): return {"str"}
        else: out.add(("Lit", tuple(sorted(plain))))
    return out
def canon_str(t):
    if t is str: return "str"
    if isinstance(t, StringLiteral): return "str" if t.overflowed else ("Lit", tuple(sorted(t.literals)))
    if isclass(t) and issubclass(t, StringSerializable): return t.__name__
    return None
def check_strings(samples, reg, sreg):
    viol=[]
    roots=[m for m in reg.models if any(p.parent is None for p in m.pointers)]
    models={m.index:m for m in reg.models}
    fieldvals=collections.defaultdict(list)
    seen=set(); queue=[(roots[0], s) for s in samples]
    while queue:
        m,o=queue.pop()
        if (m.index,id(o)) in seen: continue
        seen.add((m.index,id(o)))
        for k,t in m.type.items():
            if k in o:
                fieldvals[(m.index,k)].append(o[k])
                w=W(sreg); w.route(o[k], t, k)
                for mi, os_ in w.objs.items():
                    for x in os_: queue.append((models[mi], x))
    def pos(t, vals, where):
        if isinstance(t, DOptional): t=t.type
        members = t.types if isinstance(t, DUnion) else [t]
        got = {canon_str(x) for x in members} - {None}
        S=[v for v in vals if isinstance(v,str)]
        exp = strref(S, sreg)
        if got != exp: viol.append((where, got, exp, S))
        for x in members:
            if isinstance(x, DList): pos(x.type, [e for v in vals if isinstance(v,list) for e in v], where+"[]")
            if isinstance(x, DDict): pos(x.type, [e for v in vals if isinstance(v,dict) and inhabits(v,x,sreg) and not any(isinstance(y, ModelPtr) and inhabits(v,y,sreg) for y in members) for e in v.values()], where+"{}")
    for m in reg.models:
        for k,t in m.type.items(): pos(t, fieldvals[(m.index,k)], f"{m.name}.{k}")
    return viol
