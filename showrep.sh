#!/bin/bash
# show replay files: showrep.sh Cxx
for f in /verif/replays/$1/*.json; do /venv/bin/python - "$f" <<'P'
import json,sys
d=json.load(open(sys.argv[1]))
print("=====",sys.argv[1].split("/")[-1], d["clause"],"count",d["count"],"shrink",d["shrink_evaluations"]); print(json.dumps(d["case"],ensure_ascii=False)[:1500]); print(d["detail"][:1500])
P
done
